"""
C13y / (1): `_ValueClassInstance._fixpoint` stops only at a fixed point of one round (body walk + phi merge) for ALL
loop phis: on return every loop-carried definition has the class the body walk computes from the returned phi classes,
every phi covers both of its incoming edges, and no phi moved in the last round.

Model (spec/c13y.py): receiver FixProbe (classes live in definition stubs; `_set_def` / `_def_class` read and write
them), the body walk `run_body` is an uninterpreted deterministic function of the phi classes, the class lattice is the
one-atom lattice (the code only joins and compares classes; ValueClass is its 4-fold product).

BOUND: the number of phis of the loop is fixed to 1, 2, 3 (one contract each; the round loop
`range(_ROUNDS_PER_PHI * len(phis) + 1)` is then concrete and unrolled).  Reported as bounded stand-ins.
"""
from speclib import *
from spec.c13y import *


class C13y_fixpoint_1phi(Contract):
    """BOUNDED STAND-IN: a loop with 1 phi"""
    target = 'fpy2.analysis.value_class:_ValueClassInstance._fixpoint'
    params = {'self': 'FixProbe', 'stmt': 'LoopStub', 'run_body': 'BodyStub'}
    aliases = {'run_body.loop': 'stmt'}
    returns = 'None'
    properties = ['C13']
    inline = True
    modifies = ['stmt.row', 'run_body.calls']
    options = {'seq_len': {'stmt.row': 1}, 'bounded': 8, 'bounded_refute': True}
    note = 'bounded stand-in: loop with 1 phi; one-atom class lattice; abstract (uninterpreted) body walk'

    def pre(self, stmt, run_body):
        return {'fresh_body': run_body.calls == 0}

    def post(self, stmt, run_body, result):
        return fix_post(stmt.row, run_body, 1)

    def raises(self, stmt, run_body):
        return {}


class C13y_fixpoint_2phi(Contract):
    """BOUNDED STAND-IN: a loop with 2 phis"""
    target = 'fpy2.analysis.value_class:_ValueClassInstance._fixpoint'
    params = {'self': 'FixProbe', 'stmt': 'LoopStub', 'run_body': 'BodyStub'}
    aliases = {'run_body.loop': 'stmt'}
    returns = 'None'
    properties = ['C13']
    inline = True
    modifies = ['stmt.row', 'run_body.calls']
    options = {'seq_len': {'stmt.row': 2}, 'bounded': 8, 'bounded_refute': True}
    note = 'bounded stand-in: loop with 2 phis; one-atom class lattice; abstract (uninterpreted) body walk'

    def pre(self, stmt, run_body):
        return {'fresh_body': run_body.calls == 0}

    def post(self, stmt, run_body, result):
        return fix_post(stmt.row, run_body, 2)

    def raises(self, stmt, run_body):
        return {}


class C13y_fixpoint_3phi(Contract):
    """BOUNDED STAND-IN: a loop with 3 phis"""
    target = 'fpy2.analysis.value_class:_ValueClassInstance._fixpoint'
    params = {'self': 'FixProbe', 'stmt': 'LoopStub', 'run_body': 'BodyStub'}
    aliases = {'run_body.loop': 'stmt'}
    returns = 'None'
    properties = ['C13']
    inline = True
    modifies = ['stmt.row', 'run_body.calls']
    options = {'seq_len': {'stmt.row': 3}, 'bounded': 8, 'bounded_refute': True}
    note = 'bounded stand-in: loop with 3 phis; one-atom class lattice; abstract (uninterpreted) body walk'

    def pre(self, stmt, run_body):
        return {'fresh_body': run_body.calls == 0}

    def post(self, stmt, run_body, result):
        return fix_post(stmt.row, run_body, 3)

    def raises(self, stmt, run_body):
        return {}


class C13y_fixpoint_2phi_monotone(Contract):
    """BOUNDED STAND-IN: 2 phis, MONOTONE body walk: the phi classes only grow, so the walk settles within
    (lattice height = 2 in the one-atom model) + 1 rounds and never reaches the drop-to-top branch"""
    target = 'fpy2.analysis.value_class:_ValueClassInstance._fixpoint'
    params = {'self': 'FixProbe', 'stmt': 'LoopStub', 'run_body': 'BodyStub'}
    aliases = {'run_body.loop': 'stmt'}
    returns = 'None'
    properties = ['C13']
    inline = True
    modifies = ['stmt.row', 'run_body.calls']
    options = {'seq_len': {'stmt.row': 2}, 'bounded': 8, 'bounded_refute': True}
    note = ('bounded stand-in: loop with 2 phis; one-atom class lattice; the body walk is an uninterpreted MONOTONE '
            'function (axioms: monotonicity of the ghost c13y_body2)')

    def pre(self, stmt, run_body):
        return {'fresh_body': run_body.calls == 0}

    def axioms(self, stmt, run_body):
        return body2_monotone()

    def post(self, stmt, run_body, result, old):
        out = fix_post(stmt.row, run_body, 2)
        out['settles'] = run_body.calls <= 3                 # no widening needed: at most height + 1 rounds
        for i in range(2):
            p = stmt.row[i]
            out['exact_join_' + str(i)] = p.cls == (p.lhs.cls or p.rhs.cls)
            out['grows_from_entry_edge_' + str(i)] = implies(old.stmt.row[i].lhs.cls, p.cls)
        return out

    def raises(self, stmt, run_body):
        return {}
