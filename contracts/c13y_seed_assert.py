"""
C13y / (2): `_ArraySizeInferInstance._seed_from_assert` relates, for a comparison chain `a0 op1 a1 op2 a2 ...`, exactly
the pairs {(a_i, a_{i+1}) : op_{i+1} is ==}, in chain order: every `==` link relates ITS OWN two neighbours (never the
head of the chain), a non-== link records nothing; an `And` contributes the links of its conjuncts in order; any other
test records nothing.

Receiver: the recording probe spec.c13y.SeedProbe (`_relate_sizes` appends the pair it is handed to `log`, `_len_size`
is the identity); `_seed_from_assert` is the inherited, unmodified method.  `log` starts empty (`seq_len: self.log = 0`:
a state of the instrument).

BOUND: the chain length is fixed to 1, 2, 3 links (one contract each, `seq_len` on test.ops / test.args; the 3-way
`zip` over a symbolic-length tuple is outside the engine), the `And` to 2 conjuncts of 1 and 2 links.  The operators
are symbolic enum members (all 6^n operator combinations).  Reported as bounded stand-ins.
"""
from speclib import *
from spec.c13y import *


class C13y_seed_chain1(Contract):
    """BOUNDED STAND-IN: a chain of 1 link"""
    target = 'fpy2.analysis.array_size:_ArraySizeInferInstance._seed_from_assert'
    params = {'self': 'SeedProbe', 'test': 'Compare'}
    returns = 'None'
    properties = ['C13']
    inline = True
    modifies = ['self.log']
    options = {'seq_len': {'self.log': 0, 'test.ops': 1, 'test.args': 2}, 'bounded': 8, 'bounded_refute': True}
    note = 'bounded stand-in: comparison chain of 1 link (2 operands)'

    def post(self, test, result):
        return log_is(self.log, chain_links(test.ops, test.args))

    def raises(self, test):
        return {}


class C13y_seed_chain2(Contract):
    """BOUNDED STAND-IN: a chain of 2 links"""
    target = 'fpy2.analysis.array_size:_ArraySizeInferInstance._seed_from_assert'
    params = {'self': 'SeedProbe', 'test': 'Compare'}
    returns = 'None'
    properties = ['C13']
    inline = True
    modifies = ['self.log']
    options = {'seq_len': {'self.log': 0, 'test.ops': 2, 'test.args': 3}, 'bounded': 8, 'bounded_refute': True}
    note = 'bounded stand-in: comparison chain of 2 links (3 operands)'

    def post(self, test, result):
        return log_is(self.log, chain_links(test.ops, test.args))

    def raises(self, test):
        return {}


class C13y_seed_chain3(Contract):
    """BOUNDED STAND-IN: a chain of 3 links"""
    target = 'fpy2.analysis.array_size:_ArraySizeInferInstance._seed_from_assert'
    params = {'self': 'SeedProbe', 'test': 'Compare'}
    returns = 'None'
    properties = ['C13']
    inline = True
    modifies = ['self.log']
    options = {'seq_len': {'self.log': 0, 'test.ops': 3, 'test.args': 4}, 'bounded': 8, 'bounded_refute': True}
    note = 'bounded stand-in: comparison chain of 3 links (4 operands)'

    def post(self, test, result):
        return log_is(self.log, chain_links(test.ops, test.args))

    def raises(self, test):
        return {}


class C13y_seed_and(Contract):
    """BOUNDED STAND-IN: `c0 and c1`, c0 a chain of 1 link, c1 a chain of 2 links: the links of c0, then those of c1"""
    target = 'fpy2.analysis.array_size:_ArraySizeInferInstance._seed_from_assert'
    params = {'self': 'SeedProbe', 'test': 'And'}
    overrides = {'test.args': 'tuple[Compare, Compare]'}
    returns = 'None'
    properties = ['C13']
    inline = True
    modifies = ['self.log']
    options = {'seq_len': {'self.log': 0, 'test.args.0.ops': 1, 'test.args.0.args': 2,
                           'test.args.1.ops': 2, 'test.args.1.args': 3}, 'bounded': 8, 'bounded_refute': True}
    note = 'bounded stand-in: conjunction of a 1-link and a 2-link chain'

    def post(self, test, result):
        c0, c1 = test.args
        return log_is(self.log, chain_links(c0.ops, c0.args) + chain_links(c1.ops, c1.args))

    def raises(self, test):
        return {}


class C13y_seed_other(Contract):
    """a test that is neither a conjunction nor a comparison chain records nothing"""
    target = 'fpy2.analysis.array_size:_ArraySizeInferInstance._seed_from_assert'
    params = {'self': 'SeedProbe', 'test': 'Var | BoolVal | Not | Or | Call'}
    split = ['test']
    returns = 'None'
    properties = ['C13']
    inline = True
    modifies = ['self.log']
    options = {'seq_len': {'self.log': 0}}

    def post(self, test, result):
        return {'nothing': len(self.log) == 0}

    def raises(self, test):
        return {}


class C13y_visit_assert(Contract):
    """only an UNCONDITIONAL assert (`_cond_depth == 0`) seeds size equalities; one inside an `if` / loop body records
    nothing.  BOUNDED STAND-IN in the test shape: a comparison chain of 2 links."""
    target = 'fpy2.analysis.array_size:_ArraySizeInferInstance._visit_assert'
    params = {'self': 'AssertProbe', 'stmt': 'AssertStmt', 'ctx': 'None'}
    overrides = {'stmt.test': 'Compare'}
    returns = 'None'
    properties = ['C13']
    inline = True
    modifies = ['self.log']
    options = {'seq_len': {'self.log': 0, 'stmt.test.ops': 2, 'stmt.test.args': 3}, 'bounded': 8, 'bounded_refute': True}
    note = 'bounded stand-in: the asserted test is a comparison chain of 2 links'

    def pre(self, stmt, ctx):
        return {'depth': self._cond_depth >= 0}

    def post(self, stmt, ctx, result):
        if self._cond_depth == 0:
            return log_is(self.log, chain_links(stmt.test.ops, stmt.test.args))
        return {'conditional_assert_seeds_nothing': len(self.log) == 0}

    def raises(self, stmt, ctx):
        return {}
