"""
C15 / D2, D3: the per-statement rules of `SyntaxCheckInstance` against the definite-assignment rule
set of the language guide (spec/c15.py).  Sub-visits are taken by contract:

  ASSUMED (trusted, never verified; listed in the evidence):
    _visit_expr      may reject (FPySyntaxError), may record free-variable uses, returns None
    _visit_block     result R with [[R]] ⊆ DAblock(block, [[ctx.env]]) = TOP if term_block(block)
                     else [[ctx.env]] ∪ gen_block(block)   (gen_block/term_block uninterpreted)
    _visit_statement the same for one statement (only used by _visit_block)
  VERIFIED here: _visit_binding (leaf patterns), every _visit_<stmt>, _visit_var.

AST nodes that a rule only passes on to a sub-visit are opaque keys (`Key[StmtBlock]`, `Key[Expr]`).
"""
from speclib import *
from spec.c15 import *


class SC__visit_expr(Contract):
    target = 'fpy2.analysis.syntax_check:SyntaxCheckInstance._visit_expr'
    params = {'self': 'SyntaxCheckInstance', 'e': 'Key[Expr]', 'ctx': '_Ctx'}
    returns = 'None'
    properties = ['C15']
    trusted = True
    modifies = ['self.free_var_args']
    may_raise = ['FPySyntaxError']
    note = ('ASSUMED: SyntaxCheckInstance._visit_expr(e, ctx) either raises FPySyntaxError or returns None, '
            'changing only self.free_var_args (that it checks every Var of e against ctx.env is D3, '
            'proved only for _visit_var/_mark_use)')


class SC__visit_block(Contract):
    target = 'fpy2.analysis.syntax_check:SyntaxCheckInstance._visit_block'
    params = {'self': 'SyntaxCheckInstance', 'block': 'Key[StmtBlock]', 'ctx': '_Ctx'}
    returns = '_Env'
    properties = ['C15']
    trusted = True
    modifies = ['self.free_var_args']
    may_raise = ['FPySyntaxError']
    note = ('ASSUMED: SyntaxCheckInstance._visit_block(block, ctx) returns R with [[R]] ⊆ DAblock(block, [[ctx.env]]), '
            'DAblock(b, V) = TOP if term_block(b) else V ∪ gen_block(b); gen_block, term_block are uninterpreted '
            '(the fold of the per-statement rules over block.stmts is not verified)')

    def post(self, block, ctx, result):
        return {
            'live': implies(live(ctx) and not term_block(block), not result.terminated),
            'da': implies(live(ctx) and not result.terminated,
                          forall_keys('NamedId', lambda k: implies(bound(result, k), in_da_block(block, ctx.env, k)))),
        }


class SC__visit_binding(Contract):
    target = 'fpy2.analysis.syntax_check:SyntaxCheckInstance._visit_binding'
    params = {'self': 'SyntaxCheckInstance', 'binding': 'Key[NamedId] | UnderscoreId', 'env': '_Env'}
    returns = '_Env'
    properties = ['C15']
    note = ('verified for the leaf patterns NamedId and UnderscoreId; for a TupleBinding (recursive fold over '
            'its elements) the same contract is ASSUMED with binds(pattern, k) = "k is bound by some element"')

    def post(self, binding, env, result):
        return {
            'terminated': result.terminated == env.terminated,
            'names': forall_keys('NamedId', lambda k: bound(result, k) == (bound(env, k) or binds(binding, k))),
        }

    def raises(self, binding, env):
        return {}


STMT_OPTS = {}


class SC__visit_assign(Contract):
    target = 'fpy2.analysis.syntax_check:SyntaxCheckInstance._visit_assign'
    params = {'self': 'SyntaxCheckInstance', 'stmt': 'Assign', 'ctx': '_Ctx'}
    overrides = {'stmt.target': 'Key[NamedId] | UnderscoreId | Key[TupleBinding]', 'stmt.expr': 'Key[Expr]'}
    returns = '_Env'
    properties = ['C15']
    modifies = ['self.free_var_args']
    may_raise = ['FPySyntaxError']
    options = {'call_counts': {'SyntaxCheckInstance._visit_expr': 1}}

    def post(self, stmt, ctx, result):
        return {
            'live': implies(live(ctx), not result.terminated),
            'da': implies(live(ctx), forall_keys('NamedId', lambda k: implies(bound(result, k), bound(ctx.env, k) or binds(stmt.target, k)))),
            'exact': forall_keys('NamedId', lambda k: bound(result, k) == (bound(ctx.env, k) or binds(stmt.target, k))),
        }


class SC__visit_if1(Contract):
    target = 'fpy2.analysis.syntax_check:SyntaxCheckInstance._visit_if1'
    params = {'self': 'SyntaxCheckInstance', 'stmt': 'If1Stmt', 'ctx': '_Ctx'}
    overrides = {'stmt.cond': 'Key[Expr]', 'stmt.body': 'Key[StmtBlock]'}
    returns = '_Env'
    properties = ['C15']
    modifies = ['self.free_var_args']
    may_raise = ['FPySyntaxError']
    options = {'call_counts': {'SyntaxCheckInstance._visit_expr': 1}}

    def post(self, stmt, ctx, result):
        return {'da': da_unchanged(ctx, result)}


class SC__visit_for(Contract):
    target = 'fpy2.analysis.syntax_check:SyntaxCheckInstance._visit_for'
    params = {'self': 'SyntaxCheckInstance', 'stmt': 'ForStmt', 'ctx': '_Ctx'}
    overrides = {'stmt.target': 'Key[NamedId] | UnderscoreId | Key[TupleBinding]', 'stmt.iterable': 'Key[Expr]',
                 'stmt.body': 'Key[StmtBlock]'}
    returns = '_Env'
    properties = ['C15']
    modifies = ['self.free_var_args']
    may_raise = ['FPySyntaxError']
    options = {'call_counts': {'SyntaxCheckInstance._visit_expr': 1}}

    def post(self, stmt, ctx, result):
        return {'da': da_unchanged(ctx, result)}
