"""
C15 / D2, D3: the per-statement rules of `SyntaxCheckInstance` against the definite-assignment rule
set of the language guide (spec/c15.py).  Sub-visits are taken by contract:

  ASSUMED (trusted, never verified; listed in the evidence):
    _visit_expr      may reject (FPySyntaxError), may record free-variable uses, returns None
    _visit_block     result R with [[R]] ⊆ DAblock(block, [[ctx.env]]) = TOP if term_block(block)
                     else [[ctx.env]] ∪ gen_block(block)   (gen_block/term_block uninterpreted)
    _visit_statement the same for one statement (only used by _visit_block)
  VERIFIED here: _visit_binding (leaf patterns), every _visit_<stmt>, _visit_var.

AST nodes that a rule only passes on to a sub-visit are opaque keys (`Key[StmtBlock]`, `Key[Expr]`).
"""
from speclib import *
from spec.c15 import *
from spec.c15x import *


class SC__visit_expr(Contract):
    target = 'fpy2.analysis.syntax_check:SyntaxCheckInstance._visit_expr'
    params = {'self': 'SyntaxCheckInstance',
              'e': ('Union[Var, BoolVal, Decnum, Hexnum, Integer, Rational, Digits, ForeignVal, NullaryOp, UnaryOp, NamedUnaryOp, '
                    'BinaryOp, NamedBinaryOp, TernaryOp, NamedTernaryOp, NaryOp, NamedNaryOp, ConstNan, ConstInf, ConstPi, ConstE, '
                    'ConstLog2E, ConstLog10E, ConstLn2, ConstPi_2, ConstPi_4, Const1_Pi, Const2_Pi, Const2_SqrtPi, ConstSqrt2, '
                    'ConstSqrt1_2, Add, Sub, Mul, Div, Abs, Sqrt, Fma, Neg, Copysign, Fdim, Hypot, Max, Min, AMax, AMin, Mod, Fmod, '
                    'Remainder, Cbrt, Sum, Ceil, Floor, NearbyInt, RoundInt, Trunc, Acos, Asin, Atan, Atan2, Cos, Sin, Tan, Acosh, Asinh, '
                    'Atanh, Cosh, Sinh, Tanh, Exp, Exp2, Expm1, Log, Log10, Log1p, Log2, Pow, Erf, Erfc, Lgamma, Tgamma, IsFinite, IsInf, '
                    'IsNan, IsNormal, Signbit, Logb, Not, Or, And, AnyOf, AllOf, Round, RoundAt, Cast, Len, Size, Range1, Range2, Range3, '
                    'Dim, Fst, Snd, Empty, Zip, Enumerate, Call, Attribute, Compare, TupleExpr, ListExpr, ListComp, ListRef, ListSlice, '
                    'IfExpr]'),
              'ctx': '_Ctx'}
    overrides = {'e.name@Var': 'Key[NamedId] | UnderscoreId',
                 'e.args@UnaryOp': 'tuple[Key[Expr]]', 'e.args@BinaryOp': 'tuple[Key[Expr], Key[Expr]]',
                 'e.args@TernaryOp': 'tuple[Key[Expr], Key[Expr], Key[Expr]]',
                 'e.args@NaryOp': 'KeySeq[Expr]', 'e.args@Compare': 'KeySeq[Expr]',
                 'e.args@Call': 'KeySeq[Expr]', 'e.kwargs@Call': 'PairSeq[Expr]',
                 'e.func@Call': 'Var | Attribute', 'e.func.name@Call': 'Key[NamedId]', 'e.func.value@Call': 'Key[Expr]',
                 'e.elts@TupleExpr': 'KeySeq[Expr]', 'e.elts@ListExpr': 'KeySeq[Expr]',
                 'e.targets@ListComp': 'KeySeq[TupleBinding]', 'e.iterables@ListComp': 'KeySeq[Expr]', 'e.elt@ListComp': 'Key[Expr]',
                 'e.value@ListRef': 'Key[Expr]', 'e.index@ListRef': 'Key[Expr]',
                 'e.value@ListSlice': 'Key[Expr]', 'e.start@ListSlice': 'Key[Expr] | None', 'e.stop@ListSlice': 'Key[Expr] | None',
                 'e.cond@IfExpr': 'Key[Expr]', 'e.ift@IfExpr': 'Key[Expr]', 'e.iff@IfExpr': 'Key[Expr]',
                 'e.value@Attribute': 'Key[Expr]'}
    split = ['e']
    returns = 'None'
    properties = ['C15']
    modifies = ['self.free_var_args']
    may_raise = ['FPySyntaxError']
    note = ('VERIFIED per expression class (115 classes of fpy2/ast/fpyast.py: every class below a key of '
            'visitor._expr_dispatch): the dynamic dispatch of ast/visitor.py (type(e).__mro__, _expr_dispatch) reaches '
            'the visitor of the class, whose contract (contracts/c15x_expr.py, c15_visit.py SC__visit_var) gives D3: a '
            'normal return means every free use of e (spec/c15x.py `uses`, by structural recursion; children are opaque '
            'nodes with the abstract use set) is marked defined-on-all-paths in ctx.env.  Used at call sites on opaque '
            'children = the induction hypothesis of the structural induction over the AST.  pre listcomp_wf = the '
            'assert of ListComp.__init__')

    def pre(self, e):
        return {'listcomp_wf': (seq_len(e.targets) == seq_len(e.iterables)) if cls_name(e) == 'ListComp' else True}

    def post(self, e, ctx, result, old):
        return dict(ctx_frame(ctx, old.ctx), none=result is None,
                    uses_bound=uses_bound(self, e, ctx.env))      # D3, spec/c15x.py


class SC__visit_statement(Contract):
    target = 'fpy2.analysis.syntax_check:SyntaxCheckInstance._visit_statement'
    params = {'self': 'SyntaxCheckInstance',
              'stmt': 'Assign | IndexedAssign | If1Stmt | IfStmt | WhileStmt | ForStmt | ContextStmt | AssertStmt | EffectStmt | ReturnStmt | PassStmt',
              'ctx': '_Ctx'}
    overrides = {'stmt.target': 'Key[NamedId] | UnderscoreId | Key[TupleBinding]', 'stmt.expr': 'Key[Expr]',
                 'stmt.cond': 'Key[Expr]', 'stmt.body': 'Key[StmtBlock]', 'stmt.ift': 'Key[StmtBlock]',
                 'stmt.iff': 'Key[StmtBlock]', 'stmt.iterable': 'Key[Expr]', 'stmt.ctx': 'Key[Expr]',
                 'stmt.test': 'Key[Expr]', 'stmt.msg': 'Key[Expr] | None', 'stmt.var': 'Key[NamedId]',
                 'stmt.indices': 'KeySeq[Expr]'}
    split = ['stmt']
    returns = '_Env'
    properties = ['C15']
    modifies = ['self.free_var_args']
    may_raise = ['FPySyntaxError']
    note = ('verified per statement class: the dynamic dispatch of ast/visitor.py (type(stmt).__mro__, _stmt_dispatch) '
            'reaches the rule of the class, and that rule\'s contract gives [[R]] ⊆ DA(stmt, [[ctx.env]]) with '
            'gen_stmt/term_stmt = the rule set of spec/c15.py by cases on the class')

    def post(self, stmt, ctx, result, old):
        return dict(ctx_frame(ctx, old.ctx), **{
            'live': implies(live(ctx) and not term_stmt(stmt), not result.terminated),
            'da': implies(live(ctx) and not result.terminated,
                          forall_keys('NamedId', lambda k: implies(bound(result, k), in_da_stmt(stmt, ctx.env, k)))),
        })


class SC__visit_block(Contract):
    target = 'fpy2.analysis.syntax_check:SyntaxCheckInstance._visit_block'
    params = {'self': 'SyntaxCheckInstance', 'block': 'StmtBlock', 'ctx': '_Ctx'}
    overrides = {'block.stmts': 'KeySeq[Stmt]'}
    returns = '_Env'
    properties = ['C15']
    modifies = ['self.free_var_args']
    may_raise = ['FPySyntaxError']
    options = {'loop_modifies': {0: ['self.free_var_args']}}
    note = ('verified: the loop over block.stmts (symbolic length) with invariant inv0 over the processed prefix; '
            'axioms = the DEFINITION of gen_block/term_block as the fold of gen_stmt/term_stmt (spec.c15.block_fold_def)')

    def axioms(self, block):
        return block_fold_def(block)

    def inv0(self, block, ctx, env, done):
        return {
            'live': implies(live(ctx) and not term_prefix(block, done), not env.terminated),
            'da': implies(live(ctx) and not env.terminated,
                          forall_keys('NamedId', lambda k: implies(bound(env, k), in_da_prefix(block, done, ctx.env, k)))),
        }

    def post(self, block, ctx, result, old):
        return dict(ctx_frame(ctx, old.ctx), **{
            'live': implies(live(ctx) and not term_block(block), not result.terminated),
            'da': implies(live(ctx) and not result.terminated,
                          forall_keys('NamedId', lambda k: implies(bound(result, k), in_da_block(block, ctx.env, k)))),
        })


class SC__visit_binding(Contract):
    target = 'fpy2.analysis.syntax_check:SyntaxCheckInstance._visit_binding'
    params = {'self': 'SyntaxCheckInstance', 'binding': 'Key[NamedId] | UnderscoreId | TupleBinding', 'env': '_Env'}
    overrides = {'binding.elts': 'KeySeq[TupleBinding]'}
    returns = '_Env'
    properties = ['C15']
    note = ('verified for NamedId, UnderscoreId and TupleBinding: the recursion over binding.elts (symbolic length; an '
            'element is an opaque pattern, key sort `TupleBinding` used for any pattern class) by the loop rule, with the '
            'contract itself as induction hypothesis for the elements; axioms = DEFINITION of binds_tuple as the union '
            'over the elements (spec.c15x.binds_fold_def)')

    def axioms(self, binding):
        return binds_fold_def(binding) if cls_name(binding) == 'TupleBinding' else {}

    def inv0(self, binding, env, done, old):
        return {
            'terminated': env.terminated == old.env.terminated,
            'names': forall_keys('NamedId', lambda k: bound(env, k) == (bound(old.env, k) or binds_prefix(binding, done, k))),
        }

    def post(self, binding, env, result, old):
        return {
            'terminated': result.terminated == env.terminated,
            'names': forall_keys('NamedId', lambda k: bound(result, k) == (bound(env, k) or binds(binding, k))),
            # the caller's env object is not written to (it is the env of the enclosing statement)
            'frame_env': same_env(env, old.env),
        }

    def raises(self, binding, env):
        return {}


STMT_OPTS = {}


class SC__visit_assign(Contract):
    target = 'fpy2.analysis.syntax_check:SyntaxCheckInstance._visit_assign'
    params = {'self': 'SyntaxCheckInstance', 'stmt': 'Assign', 'ctx': '_Ctx'}
    overrides = {'stmt.target': 'Key[NamedId] | UnderscoreId | Key[TupleBinding]', 'stmt.expr': 'Key[Expr]'}
    returns = '_Env'
    properties = ['C15']
    modifies = ['self.free_var_args']
    may_raise = ['FPySyntaxError']
    options = {'call_counts': {'SyntaxCheckInstance._visit_expr': 1}}

    def post(self, stmt, ctx, result, old):
        return dict(ctx_frame(ctx, old.ctx), **{
            'live': implies(live(ctx), not result.terminated),
            'da': implies(live(ctx), forall_keys('NamedId', lambda k: implies(bound(result, k), bound(ctx.env, k) or binds(stmt.target, k)))),
            'exact': forall_keys('NamedId', lambda k: bound(result, k) == (bound(ctx.env, k) or binds(stmt.target, k))),
        })


class SC__visit_if1(Contract):
    target = 'fpy2.analysis.syntax_check:SyntaxCheckInstance._visit_if1'
    params = {'self': 'SyntaxCheckInstance', 'stmt': 'If1Stmt', 'ctx': '_Ctx'}
    overrides = {'stmt.cond': 'Key[Expr]', 'stmt.body': 'Key[StmtBlock]'}
    returns = '_Env'
    properties = ['C15']
    modifies = ['self.free_var_args']
    may_raise = ['FPySyntaxError']
    options = {'call_counts': {'SyntaxCheckInstance._visit_expr': 1}}

    def post(self, stmt, ctx, result, old):
        return dict(ctx_frame(ctx, old.ctx), **{'da': da_unchanged(ctx, result)})


class SC__visit_for(Contract):
    target = 'fpy2.analysis.syntax_check:SyntaxCheckInstance._visit_for'
    params = {'self': 'SyntaxCheckInstance', 'stmt': 'ForStmt', 'ctx': '_Ctx'}
    overrides = {'stmt.target': 'Key[NamedId] | UnderscoreId | Key[TupleBinding]', 'stmt.iterable': 'Key[Expr]',
                 'stmt.body': 'Key[StmtBlock]'}
    returns = '_Env'
    properties = ['C15']
    modifies = ['self.free_var_args']
    may_raise = ['FPySyntaxError']
    options = {'call_counts': {'SyntaxCheckInstance._visit_expr': 1}}

    def post(self, stmt, ctx, result, old):
        return dict(ctx_frame(ctx, old.ctx), **{'da': da_unchanged(ctx, result)})


class SC__visit_if(Contract):
    target = 'fpy2.analysis.syntax_check:SyntaxCheckInstance._visit_if'
    params = {'self': 'SyntaxCheckInstance', 'stmt': 'IfStmt', 'ctx': '_Ctx'}
    overrides = {'stmt.cond': 'Key[Expr]', 'stmt.ift': 'Key[StmtBlock]', 'stmt.iff': 'Key[StmtBlock]'}
    returns = '_Env'
    properties = ['C15']
    modifies = ['self.free_var_args']
    may_raise = ['FPySyntaxError']
    options = {'call_counts': {'SyntaxCheckInstance._visit_expr': 1}}

    def post(self, stmt, ctx, result, old):
        return dict(ctx_frame(ctx, old.ctx), **{
            # DA(if) = DAblock(ift, V) ∩ DAblock(iff, V); TOP only if both arms terminate
            'term': implies(live(ctx) and result.terminated, term_block(stmt.ift) and term_block(stmt.iff)),
            'da': implies(live(ctx) and not result.terminated,
                          forall_keys('NamedId', lambda k: implies(bound(result, k),
                                      in_da_block(stmt.ift, ctx.env, k) and in_da_block(stmt.iff, ctx.env, k)))),
        })


class SC__visit_while(Contract):
    target = 'fpy2.analysis.syntax_check:SyntaxCheckInstance._visit_while'
    params = {'self': 'SyntaxCheckInstance', 'stmt': 'WhileStmt', 'ctx': '_Ctx'}
    overrides = {'stmt.cond': 'Key[Expr]', 'stmt.body': 'Key[StmtBlock]'}
    returns = '_Env'
    properties = ['C15']
    modifies = ['self.free_var_args']
    may_raise = ['FPySyntaxError']
    options = {'call_counts': {'SyntaxCheckInstance._visit_expr': 1}}

    def post(self, stmt, ctx, result, old):
        return dict(ctx_frame(ctx, old.ctx), **{'da': da_unchanged(ctx, result)})


class SC__visit_context(Contract):
    target = 'fpy2.analysis.syntax_check:SyntaxCheckInstance._visit_context'
    params = {'self': 'SyntaxCheckInstance', 'stmt': 'ContextStmt', 'ctx': '_Ctx'}
    overrides = {'stmt.target': 'Key[NamedId] | UnderscoreId', 'stmt.ctx': 'Key[Expr]', 'stmt.body': 'Key[StmtBlock]'}
    returns = '_Env'
    properties = ['C15']
    modifies = ['self.free_var_args']
    may_raise = ['FPySyntaxError']
    options = {'call_counts': {'SyntaxCheckInstance._visit_expr': 1}}

    def post(self, stmt, ctx, result, old):
        return dict(ctx_frame(ctx, old.ctx), **{
            # DA(with e as t: b) = DAblock(b, V ∪ {t})
            'term': implies(live(ctx) and result.terminated, term_block(stmt.body)),
            'da': implies(live(ctx) and not result.terminated,
                          forall_keys('NamedId', lambda k: implies(bound(result, k),
                                      in_da_block(stmt.body, ctx.env, k) or binds(stmt.target, k)))),
        })


class SC__visit_indexed_assign(Contract):
    target = 'fpy2.analysis.syntax_check:SyntaxCheckInstance._visit_indexed_assign'
    params = {'self': 'SyntaxCheckInstance', 'stmt': 'IndexedAssign', 'ctx': '_Ctx'}
    overrides = {'stmt.var': 'Key[NamedId]', 'stmt.indices': 'KeySeq[Expr]', 'stmt.expr': 'Key[Expr]'}
    returns = '_Env'
    properties = ['C15']
    modifies = ['self.free_var_args']
    may_raise = ['FPySyntaxError']
    options = {'loop_modifies': {0: ['self.free_var_args']}}

    def inv0(self, stmt, ctx, env, done):
        return {'env': same_obj(env, ctx.env)}

    def post(self, stmt, ctx, result, old):
        return dict(ctx_frame(ctx, old.ctx), **{
            'same': same_env(result, ctx.env),
            'var_checked': bound(ctx.env, stmt.var),       # xs[i] = e uses xs
        })


class SC__visit_assert(Contract):
    target = 'fpy2.analysis.syntax_check:SyntaxCheckInstance._visit_assert'
    params = {'self': 'SyntaxCheckInstance', 'stmt': 'AssertStmt', 'ctx': '_Ctx'}
    overrides = {'stmt.test': 'Key[Expr]', 'stmt.msg': 'Key[Expr] | None'}
    returns = '_Env'
    properties = ['C15']
    modifies = ['self.free_var_args']
    may_raise = ['FPySyntaxError']

    def post(self, stmt, ctx, result, old):
        return dict(ctx_frame(ctx, old.ctx), **{'same': same_env(result, ctx.env)})


class SC__visit_effect(Contract):
    target = 'fpy2.analysis.syntax_check:SyntaxCheckInstance._visit_effect'
    params = {'self': 'SyntaxCheckInstance', 'stmt': 'EffectStmt', 'ctx': '_Ctx'}
    overrides = {'stmt.expr': 'Key[Expr]'}
    returns = '_Env'
    properties = ['C15']
    modifies = ['self.free_var_args']
    may_raise = ['FPySyntaxError']
    options = {'call_counts': {'SyntaxCheckInstance._visit_expr': 1}}

    def post(self, stmt, ctx, result, old):
        return dict(ctx_frame(ctx, old.ctx), **{'same': same_env(result, ctx.env)})


class SC__visit_return(Contract):
    target = 'fpy2.analysis.syntax_check:SyntaxCheckInstance._visit_return'
    params = {'self': 'SyntaxCheckInstance', 'stmt': 'ReturnStmt', 'ctx': '_Ctx'}
    overrides = {'stmt.expr': 'Key[Expr]'}
    returns = '_Env'
    properties = ['C15']
    modifies = ['self.free_var_args']
    may_raise = ['FPySyntaxError']
    options = {'call_counts': {'SyntaxCheckInstance._visit_expr': 1}}

    def post(self, stmt, ctx, result, old):
        # DA(return) = TOP: nothing to bound; the rule set says the path ends here
        return dict(ctx_frame(ctx, old.ctx), **{'terminated': result.terminated})


class SC__visit_pass(Contract):
    target = 'fpy2.analysis.syntax_check:SyntaxCheckInstance._visit_pass'
    params = {'self': 'SyntaxCheckInstance', 'stmt': 'PassStmt', 'ctx': '_Ctx'}
    returns = '_Env'
    properties = ['C15']

    def post(self, stmt, ctx, result, old):
        return dict(ctx_frame(ctx, old.ctx), **{'same': same_env(result, ctx.env)})

    def raises(self, stmt, ctx):
        return {}


class SC__visit_var(Contract):
    target = 'fpy2.analysis.syntax_check:SyntaxCheckInstance._visit_var'
    params = {'self': 'SyntaxCheckInstance', 'e': 'Var', 'ctx': '_Ctx'}
    overrides = {'e.name': 'Key[NamedId] | UnderscoreId'}
    returns = 'None'
    properties = ['C15']
    modifies = ['self.free_var_args']

    def post(self, e, ctx, result, old):
        # D3: a use that is accepted is defined on every path
        return dict(ctx_frame(ctx, old.ctx), **{'checked': bound(ctx.env, e.name) if cls_name(e.name) == 'NamedId' else self.allow_wildcard})

    def raises(self, e, ctx):
        return {'FPySyntaxError': (not bound(ctx.env, e.name)) if cls_name(e.name) == 'NamedId' else (not self.allow_wildcard)}
