"""C04 / P5: runtime helpers of fpy2/interpret/byte.py against the language reference
(docs/USAGE.md "Lists", docs/source/dev/semantics.rst)."""
from speclib import *
from spec.c04 import *

REALS = 'Float | Fraction'
NONREAL = 'bool | Foreign'


class byte__cvt_int(Contract):
    target = 'fpy2.interpret.byte:_cvt_int'
    params = {'val': 'Float | Fraction | bool | Foreign'}
    returns = 'int'
    properties = ['C04']

    def post(self, val, result):
        return {'value': denotes_int(val, result)}

    def raises(self, val):
        return {'TypeError': not is_real_value(val) or not int_valued(val)}


class byte__cvt_index(Contract):
    target = 'fpy2.interpret.byte:_cvt_index'
    params = {'val': 'Float | Fraction | bool | Foreign'}
    returns = 'int'
    properties = ['C04']
    note = 'USAGE.md: "negative indices are not supported": a negative integer index is an IndexError, never wrapped'

    def post(self, val, result):
        return {'value': denotes_int(val, result), 'nonneg': result >= 0}

    def raises(self, val):
        return {'TypeError': not is_real_value(val) or not int_valued(val),
                'IndexError': (is_real_value(val) and int_valued(val) and neg_value(val))}


class byte__eval_len(Contract):
    target = 'fpy2.interpret.byte:_eval_len'
    params = {'x': 'list[Float] | tuple[Float, ...] | Float | bool'}
    returns = 'int'
    properties = ['C04']
    note = 'USAGE.md: `len` operates on lists (only)'

    def post(self, x, result):
        return {'len': result == len(x)}

    def raises(self, x):
        return {'TypeError': cls_name(x) != 'list'}


class byte__eval_list_slice(Contract):
    target = 'fpy2.interpret.byte:_eval_list_slice'
    params = {'lst': 'list[Float] | tuple[Float, ...] | Float', 'start': 'Float | Fraction | None',
              'stop': 'Float | Fraction | bool | None', 'a': 'int', 'b': 'int', 'k': 'int'}
    returns = 'list[Float]'
    split = ['start', 'stop']
    properties = ['C04']
    note = ('USAGE.md "Slicing": xs[start:stop] extracts exactly stop - start elements, runtime check '
            '0 <= start <= stop <= len(xs) else IndexError, non-integer bound TypeError, omitted bounds 0 / len(xs). '
            'GHOST parameters: a, b = the integers the bounds denote (pre; 0 / len(xs) when omitted), k = an arbitrary '
            'index: the clause `elements` is proved for every k.  RESTRICTION (pre): a Float bound has exponent >= 0 '
            '(the encoding of Float.from_int and of integer literals); for a Float bound with a negative exponent the '
            'needed fact "a triple denotes at most one integer" (L_int_denotation_unique, proved) is not found by z3 '
            'inside the path queries: NOT COVERED here.')

    def pre(self, lst, start, stop, a, b):
        return {'float_bounds_in_integer_encoding': not exp_neg(start) and not exp_neg(stop),
                'a_is_start': bound_is(start, a, 0),
                'b_is_stop': bound_is(stop, b, len(lst) if cls_name(lst) == 'list' else 0)}

    def post(self, lst, start, stop, a, b, k, result):
        return {
            'is_list': cls_name(result) == 'list',
            'exact_size': len(result) == b - a,
            'elements': same_elem(result, k, lst, a + k) if (0 <= k and k < b - a and k < len(result)) else True,
        }

    def raises(self, lst, start, stop, a, b):
        ok_types = cls_name(lst) == 'list' and bound_ok(start) and bound_ok(stop)
        return {
            'TypeError': not ok_types,
            'IndexError': (not (0 <= a and a <= b and b <= len(lst))) if ok_types else False,
        }
