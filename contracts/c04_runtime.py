"""C04 / P5: runtime helpers of fpy2/interpret/byte.py against the language reference
(docs/USAGE.md "Lists", docs/source/dev/semantics.rst)."""
from speclib import *
from spec.c04 import *

REALS = 'Float | Fraction'
NONREAL = 'bool | Foreign'


class byte__cvt_int(Contract):
    target = 'fpy2.interpret.byte:_cvt_int'
    params = {'val': 'Float | Fraction | bool | Foreign'}
    returns = 'int'
    properties = ['C04']

    def post(self, val, result):
        return {'value': denotes_int(val, result)}

    def raises(self, val):
        return {'TypeError': not is_real_value(val) or not int_valued(val)}


class byte__cvt_index(Contract):
    target = 'fpy2.interpret.byte:_cvt_index'
    params = {'val': 'Float | Fraction | bool | Foreign'}
    returns = 'int'
    properties = ['C04']
    note = 'USAGE.md: "negative indices are not supported": a negative integer index is an IndexError, never wrapped'

    def post(self, val, result):
        return {'value': denotes_int(val, result), 'nonneg': result >= 0}

    def raises(self, val):
        return {'TypeError': not is_real_value(val) or not int_valued(val),
                'IndexError': (is_real_value(val) and int_valued(val) and neg_value(val))}
