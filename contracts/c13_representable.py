"""
C13 / A2: `representable_classes(ctx)` over-approximates the classes of `ctx.round(v)`.

`_rounded_class(ctx, v)` is the class of `ctx.round(v)`, or the empty class where the context has no result
for v (it raises).  The statement  _rounded_class(ctx, v) <= representable_classes(ctx)  for an ARBITRARY Float v
is exactly the use `_rounded` makes of it.  One contract per context family whose `round` has a (C01) contract,
used modularly; the context's parameters (precision, rounding mode, enable_nan / enable_inf, nan_value / inf_value
substitutes) stay symbolic.  Each family is split into three contracts by the class of v (parallel jobs).
"""
from speclib import *
from spec.c13 import *
from fpy2.analysis.value_class import representable_classes, _rounded_class


class VC_representable_mpfloat_nan(Contract):
    """MPFloatContext: the class of ctx.round(v) for a NaN operand is among representable_classes(ctx)"""
    target = 'fpy2.analysis.value_class:_rounded_class'
    params = {'ctx': 'MPFloatContext', 'x': 'Float'}
    returns = 'ValueClass'
    properties = ['C13']
    inline = True
    options = {'feas_ms': 400}

    def pre(self, ctx, x):
        return {'pmax': ctx.pmax >= 1, 'deterministic': ctx.num_randbits is not None and ctx.num_randbits == 0,
                'operand': x._isnan}

    def post(self, ctx, x, result):
        return {'covered': vc_subset(result, representable_classes(ctx))}

    def raises(self, ctx, x):
        return {}


class VC_representable_mpfloat_inf(Contract):
    """MPFloatContext: the class of ctx.round(v) for an infinite operand is among representable_classes(ctx)"""
    target = 'fpy2.analysis.value_class:_rounded_class'
    params = {'ctx': 'MPFloatContext', 'x': 'Float'}
    returns = 'ValueClass'
    properties = ['C13']
    inline = True
    options = {'feas_ms': 400}

    def pre(self, ctx, x):
        return {'pmax': ctx.pmax >= 1, 'deterministic': ctx.num_randbits is not None and ctx.num_randbits == 0,
                'operand': x._isinf}

    def post(self, ctx, x, result):
        return {'covered': vc_subset(result, representable_classes(ctx))}

    def raises(self, ctx, x):
        return {}


class VC_representable_mpfloat_finite(Contract):
    """MPFloatContext: the class of ctx.round(v) for a finite operand (zero included) is among representable_classes(ctx)"""
    target = 'fpy2.analysis.value_class:_rounded_class'
    params = {'ctx': 'MPFloatContext', 'x': 'Float'}
    returns = 'ValueClass'
    properties = ['C13']
    inline = True
    options = {'feas_ms': 400}

    def pre(self, ctx, x):
        return {'pmax': ctx.pmax >= 1, 'deterministic': ctx.num_randbits is not None and ctx.num_randbits == 0,
                'operand': not x._isnan and not x._isinf}

    def post(self, ctx, x, result):
        return {'covered': vc_subset(result, representable_classes(ctx))}

    def raises(self, ctx, x):
        return {}


class VC_representable_mpfixed_nan(Contract):
    """MPFixedContext: the class of ctx.round(v) for a NaN operand is among representable_classes(ctx)"""
    target = 'fpy2.analysis.value_class:_rounded_class'
    params = {'ctx': 'MPFixedContext', 'x': 'Float'}
    returns = 'ValueClass'
    properties = ['C13']
    inline = True
    options = {'feas_ms': 400}

    def pre(self, ctx, x):
        return {'deterministic': ctx.num_randbits is not None and ctx.num_randbits == 0,
                'operand': x._isnan}

    def post(self, ctx, x, result):
        return {'covered': vc_subset(result, representable_classes(ctx))}

    def raises(self, ctx, x):
        return {}


class VC_representable_mpfixed_inf(Contract):
    """MPFixedContext: the class of ctx.round(v) for an infinite operand is among representable_classes(ctx)"""
    target = 'fpy2.analysis.value_class:_rounded_class'
    params = {'ctx': 'MPFixedContext', 'x': 'Float'}
    returns = 'ValueClass'
    properties = ['C13']
    inline = True
    options = {'feas_ms': 400}

    def pre(self, ctx, x):
        return {'deterministic': ctx.num_randbits is not None and ctx.num_randbits == 0,
                'operand': x._isinf}

    def post(self, ctx, x, result):
        return {'covered': vc_subset(result, representable_classes(ctx))}

    def raises(self, ctx, x):
        return {}


class VC_representable_mpfixed_finite(Contract):
    """MPFixedContext: the class of ctx.round(v) for a finite operand (zero included) is among representable_classes(ctx)"""
    target = 'fpy2.analysis.value_class:_rounded_class'
    params = {'ctx': 'MPFixedContext', 'x': 'Float'}
    returns = 'ValueClass'
    properties = ['C13']
    inline = True
    options = {'feas_ms': 400}

    def pre(self, ctx, x):
        return {'deterministic': ctx.num_randbits is not None and ctx.num_randbits == 0,
                'operand': not x._isnan and not x._isinf}

    def post(self, ctx, x, result):
        return {'covered': vc_subset(result, representable_classes(ctx))}

    def raises(self, ctx, x):
        return {}
