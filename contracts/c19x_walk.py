"""
C19x (2): the order of the walkers `walk_stmts` / `walk_exprs` (fpy2/transform/path.py).

BOUNDED STAND-IN (one program SHAPE; every expression leaf, name and location is symbolic):

    body[0]  if <BinaryOp(a, b)>:            IfStmt, cond = BinaryOp with operands a, b
                 x[i0, i1] = v               ift = [IndexedAssign with 2 indices]
             else:
                 while c: <effect e>         iff = [WhileStmt [EffectStmt]]
    body[1]  return r                        ReturnStmt

on which the walkers must list, in this order: a statement before the blocks it holds, the `ift` block before the
`iff` block, a statement's own expressions before the expressions of the blocks it holds, an expression before its
operands (outermost first), the indices of an indexed assignment before the assigned expression -- the order the
rewriting visitor reaches them in (contracts/c19x_visitor.py), given that `sub_exprs` / `sub_blocks` follow the
visit-order table (contracts/c19x_listing.py, proved for every class and every length).
The generators are evaluated eagerly (pyvc/eagergen.py).  The general statement (every program) needs induction over
the program and is not proved.
"""
from speclib import *
from spec.c19x import *


class walk_exprs_shape(Contract):
    target = 'fpy2.transform.path:walk_exprs'
    params = {'func': 'FuncDef'}
    returns = 'list'
    properties = ['C19']
    inline = True
    overrides = {
        'func.body.stmts': 'tuple[IfStmt, ReturnStmt]',
        'func.body.stmts.0.cond': 'BinaryOp',
        'func.body.stmts.0.ift.stmts': 'tuple[IndexedAssign]',
        'func.body.stmts.0.ift.stmts.0.indices': 'tuple[Expr, Expr]',
        'func.body.stmts.0.iff.stmts': 'tuple[WhileStmt]',
        'func.body.stmts.0.iff.stmts.0.body.stmts': 'tuple[EffectStmt]',
    }
    options = {'bounded': 8}
    note = 'bounded stand-in: one program shape (if / indexed assignment / while / effect / return)'

    def post(self, func, result):
        return walk_exprs_shape_clauses(func, list(result))

    def raises(self, func):
        return {}


class walk_stmts_shape(Contract):
    target = 'fpy2.transform.path:walk_stmts'
    params = {'func': 'FuncDef'}
    returns = 'list'
    properties = ['C19']
    inline = True
    overrides = {
        'func.body.stmts': 'tuple[IfStmt, ReturnStmt]',
        'func.body.stmts.0.cond': 'BinaryOp',
        'func.body.stmts.0.ift.stmts': 'tuple[IndexedAssign]',
        'func.body.stmts.0.ift.stmts.0.indices': 'tuple[Expr, Expr]',
        'func.body.stmts.0.iff.stmts': 'tuple[WhileStmt]',
        'func.body.stmts.0.iff.stmts.0.body.stmts': 'tuple[EffectStmt]',
    }
    options = {'bounded': 8}
    note = 'bounded stand-in: one program shape (if / indexed assignment / while / effect / return)'

    def post(self, func, result):
        return walk_stmts_shape_clauses(func, list(result))

    def raises(self, func):
        return {}
