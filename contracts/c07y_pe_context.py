"""
C07 / O3 (extension): `_PartialEvalInstance._visit_context(stmt, ctx)` analyses the body of a `with` block under the
context of THAT block when it is statically known, and under NO context (`None`: nothing in the body is folded as a
rounded constant) when it is not -- never under the enclosing context `ctx`.

The receiver is the recording probe spec.c07y.PEProbe (a _PartialEvalInstance whose `_visit_expr` / `_visit_block`
record (kind, node, ctx) instead of descending; `_visit_context` and `_is_value` are the inherited, unmodified
methods).  `by_expr` is an arbitrary table (one entry, or none, for the context expression: C07y_pe_context_known /
_unknown), the enclosing context an arbitrary Context or None.

    post  exactly two visits, in this order:
            the context expression, under REAL
            the body, under   by_expr[stmt.ctx]   if that entry exists and is a Context       (known)
                              None                otherwise -- also when `ctx` is a Context    (unknown: the
                                                  entry is absent, or is a value that is not a Context)
          frame: nothing but the log is written (the caller's ctx object, by_expr, by_def are not touched), so the
          statements after the block are analysed under the caller's own `ctx` (DefaultVisitor._visit_block passes the
          same ctx to every statement)
"""
from speclib import *
from spec.c07 import *
from spec.c07y import *


def _pe_context_post(self, stmt, ctx):
    log = self.log
    tab = self.by_expr
    known = (stmt.ctx in tab) and key_isa(map_val(tab, stmt.ctx), 'Context')
    out = {'two_visits': len(log) == 2}
    if len(log) == 2:
        got = log[1][2]
        if got is None:
            body_ctx = not known
        elif got is ctx:
            body_ctx = False             # the enclosing context object itself was handed to the body
        else:
            body_ctx = known and got == map_val(tab, stmt.ctx)
        out.update({
            'expr_first': log[0][0] == 'expr' and log[0][1] == stmt.ctx,
            'expr_under_real': cls_name(log[0][2]) == 'RealContext',
            'body_second': log[1][0] == 'block' and log[1][1] == stmt.body,
            # THE CLAUSE: the body is visited under the block's own statically known context, else under None
            'body_ctx': body_ctx,
            'never_enclosing': (got is not ctx) if ctx is not None else True,
        })
    return out


class C07y_pe_context(Contract):
    target = 'fpy2.analysis.partial_eval:_PartialEvalInstance._visit_context'
    params = {'self': 'PEProbe', 'stmt': 'ContextStmt', 'ctx': 'Context | None'}
    overrides = {'stmt.ctx': 'Key[Expr]', 'stmt.body': 'Key[StmtBlock]', 'self.by_expr': 'dict[Key[Expr], Key[PEValue]]'}
    returns = 'None'
    properties = ['C07']
    inline = True
    modifies = ['self.log']
    options = {'seq_len': {'self.log': 0}}
    note = ('by_expr is an arbitrary table Expr -> Value (abstract nodes; the class of a value is symbolic over the '
            'alternatives of spec.c07y.PEValue: Context, or one of Float / Foreign standing for every non-Context value); the enclosing ctx is any Context or None')

    def post(self, stmt, ctx):
        return _pe_context_post(self, stmt, ctx)

    def raises(self, stmt, ctx):
        return {}
