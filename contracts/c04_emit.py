"""
C04 / P2: every rounded operation is emitted as  Call(Name('__fpy_<Class>'), args..., keywords=[ctx=Name('__ctx__')]).

Python `ast` node constructors are opaque free constructors (pyvc/strings.py FreeCons).  The sub-visit
`_visit_expr` is ASSUMED (trusted): it returns the code of the sub-expression, an opaque integer
ghost('pyexpr', e).  Which classes are rounded operations is the REFERENCE set of spec/c04.py (from
spec/c04_tables.py: the node classes of fpy2.ops functions).
"""
from speclib import *
from spec.c04 import *


class BC__visit_expr(Contract):
    target = 'fpy2.ast.visitor:Visitor._visit_expr'
    params = {'self': 'BytecodeCompiler', 'e': 'Key[Expr]', 'ctx': 'None'}
    returns = 'int'
    properties = ['C04']
    trusted = True
    may_raise = ['NotImplementedError']
    note = ('ASSUMED: the sub-visit of an operand returns its emitted Python expression, abstracted to the opaque code '
            'ghost("pyexpr", e); it may raise NotImplementedError')

    def post(self, e, result):
        return {'code': result == ghost('pyexpr', e)}


class BC__visit_nullaryop(Contract):
    target = 'fpy2.interpret.byte:BytecodeCompiler._visit_nullaryop'
    params = {'self': 'BytecodeCompiler',
              'e': 'ConstNan | ConstInf | ConstPi | ConstE | ConstLog2E | ConstLog10E | ConstLn2 | ConstPi_2 | ConstPi_4 | Const1_Pi | Const2_Pi | Const2_SqrtPi | ConstSqrt2 | ConstSqrt1_2',
              'ctx': 'None'}
    split = ['e']
    returns = 'Any'
    properties = ['C04']

    def post(self, e, result):
        return dict(rounded_call(result, cls_name(e)), nargs=len(result.args) == 0)

    def raises(self, e):
        return {}


class BC__visit_unaryop(Contract):
    target = 'fpy2.interpret.byte:BytecodeCompiler._visit_unaryop'
    params = {'self': 'BytecodeCompiler',
              'e': 'Union[Abs, Sqrt, Neg, Cbrt, Ceil, Floor, NearbyInt, RoundInt, Trunc, Acos, Asin, Atan, Cos, Sin, Tan, Acosh, Asinh, Atanh, Cosh, Sinh, Tanh, Exp, Exp2, Expm1, Log, Log10, Log1p, Log2, Erf, Erfc, Lgamma, Tgamma, IsFinite, IsInf, IsNan, IsNormal, Signbit, Round, Cast, Logb, Dim, Fst, Snd, Enumerate, Sum, Not, Len, Range1, AMin, AMax, AnyOf, AllOf]',
              'ctx': 'None'}
    overrides = {'e.args': 'tuple[Key[Expr]]'}
    split = ['e']
    returns = 'Any'
    properties = ['C04']
    may_raise = ['NotImplementedError']

    def post(self, e, result):
        n = cls_name(e)
        a = ghost('pyexpr', e.args[0])
        if n in ROUNDED_UNARY:
            return dict(rounded_call(result, n), args=len(result.args) == 1 and result.args[0] == a)
        return unrounded_unary(result, n, a)


class BC__visit_binaryop(Contract):
    target = 'fpy2.interpret.byte:BytecodeCompiler._visit_binaryop'
    params = {'self': 'BytecodeCompiler',
              'e': 'Add | Sub | Mul | Div | Copysign | Fdim | Mod | Fmod | Remainder | Hypot | Atan2 | Pow | RoundAt | Size | Range2',
              'ctx': 'None'}
    overrides = {'e.args': 'tuple[Key[Expr], Key[Expr]]'}
    split = ['e']
    returns = 'Any'
    properties = ['C04']
    may_raise = ['NotImplementedError']

    def post(self, e, result):
        n = cls_name(e)
        a, b = ghost('pyexpr', e.args[0]), ghost('pyexpr', e.args[1])
        if n in ROUNDED_BINARY:
            return dict(rounded_call(result, n), args=len(result.args) == 2 and result.args[0] == a and result.args[1] == b)
        return {'range': plain_call(result, '__fpy_range') and len(result.args) == 3 and result.args[0] == a
                and result.args[1] == b and is_none_const(result.args[2])}


class BC__visit_ternaryop(Contract):
    target = 'fpy2.interpret.byte:BytecodeCompiler._visit_ternaryop'
    params = {'self': 'BytecodeCompiler', 'e': 'Fma | Range3', 'ctx': 'None'}
    overrides = {'e.args': 'tuple[Key[Expr], Key[Expr], Key[Expr]]'}
    split = ['e']
    returns = 'Any'
    properties = ['C04']
    may_raise = ['NotImplementedError']

    def post(self, e, result):
        n = cls_name(e)
        a, b, c = ghost('pyexpr', e.args[0]), ghost('pyexpr', e.args[1]), ghost('pyexpr', e.args[2])
        ordered = len(result.args) == 3 and result.args[0] == a and result.args[1] == b and result.args[2] == c
        if n == 'Fma':
            return dict(rounded_call(result, n), args=ordered)
        return {'range': plain_call(result, '__fpy_range') and ordered}


class Interp__func_ctx(Contract):
    target = 'fpy2.interpret.interpreter:Interpreter._func_ctx'
    params = {'self': 'BytecodeInterpreter', 'func': 'FuncDef', 'ctx': 'IEEEContext | None'}
    overrides = {'func._meta.ctx': 'MPFloatContext | None'}
    returns = 'Any'
    properties = ['C04']
    note = ('P4 (derived-semantics.rst "Call"): the body runs under the callee\'s declared context if it has one, else the '
            'caller\'s; a call from Python with no context runs under IEEE double (interpreter._PY_CTX).  Declared FPCore '
            'contexts (FPCoreContext.to_context) are not covered.')

    def post(self, func, ctx, result):
        d = func.meta.ctx
        return {
            'declared_wins': same_obj(result, d) if d is not None else True,
            'else_callers': same_obj(result, ctx) if (d is None and ctx is not None) else True,
            'else_double': is_binary64_rne(result) if (d is None and ctx is None) else True,
        }

    def raises(self, func, ctx):
        return {}
