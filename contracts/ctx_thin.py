"""C01 context layer: ExpContext, RealContext and the fixed-width layers over the MPB contexts."""
from speclib import *
from spec.real import *
from spec.floats import *
from spec.ctx import *
from fpy2.number.round import RoundingMode


class ExpContext__round_at(Contract):
    target = 'fpy2.number.context.exponential:ExpContext._round_at'
    params = {'self': 'ExpContext', 'x': 'RealFloat | Float', 'n': 'int | None', 'exact': 'bool'}
    returns = 'Float'
    properties = ['C01']
    binds = {'result._ctx': 'self'}
    split = ['x', 'exact']
    options = {'noax_first_ms': 8000, 'symbolic_tier': 'thorough'}      # 4 cases x ~330 s: thorough tier

    def post(self, x, n, exact, result):
        return exp_post(self, x, n, exact, result)

    def raises(self, x, n, exact):
        return exp_raises(self, x, n, exact)


class ExpContext_round(Contract):
    target = 'fpy2.number.context.exponential:ExpContext.round'
    params = {'self': 'ExpContext', 'x': 'RealFloat | Float', 'exact': 'bool'}
    returns = 'Float'
    properties = ['C01']
    binds = {'result._ctx': 'self'}

    def post(self, x, exact, result):
        return exp_post(self, x, None, exact, result)

    def raises(self, x, exact):
        return exp_raises(self, x, None, exact)


class RealContext_round(Contract):
    target = 'fpy2.number.context.real:RealContext.round'
    params = {'self': 'RealContext', 'x': 'RealFloat | Float', 'exact': 'bool'}
    returns = 'Float'
    properties = ['C01']
    binds = {'result._ctx': 'self'}

    def post(self, x, exact, result):
        return real_post(self, x, result)

    def raises(self, x, exact):
        return {}


class RealContext_round_at(Contract):
    target = 'fpy2.number.context.real:RealContext.round_at'
    params = {'self': 'RealContext', 'x': 'RealFloat | Float', 'n': 'int', 'exact': 'bool'}
    returns = 'Float'
    properties = ['C01']

    def raises(self, x, n, exact):
        # there is no rounding position in the real context
        return {'RuntimeError': True}


class fixed__fixed_to_mpb_fixed(Contract):
    target = 'fpy2.number.context.fixed:_fixed_to_mpb_fixed'
    params = {'signed': 'bool', 'scale': 'int', 'nbits': 'int'}
    returns = 'tuple[RealFloat, RealFloat]'
    properties = ['C01']

    def pre(self, signed, scale, nbits):
        # FixedContext.__init__ / FixedFormat.__init__ reject smaller widths before calling
        return {'width': nbits >= 1 and (not signed or nbits >= 2)}

    def post(self, signed, scale, nbits, result):
        pos, neg = result
        return {
            # two's complement: [-2^(nbits-1), 2^(nbits-1) - 1] * 2^scale; unsigned: [0, 2^nbits - 1] * 2^scale
            'pos_sign': not pos._s,
            'pos_exp': pos._exp == scale,
            'pos_c': pos._c == (pow2(nbits - 1) - 1 if signed else pow2(nbits) - 1),
            'neg_signed': implies(signed, neg._s and neg._exp == scale and neg._c == pow2(nbits - 1)),
            'neg_unsigned': implies(not signed, neg._c == 0),
            'flags': pos._flags._flags == 0 and neg._flags._flags == 0,
        }

    def raises(self, signed, scale, nbits):
        return {}
