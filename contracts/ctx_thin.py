"""C01 context layer: ExpContext, RealContext and the fixed-width layers over the MPB contexts."""
from speclib import *
from spec.real import *
from spec.floats import *
from spec.ctx import *
from fpy2.number.round import RoundingMode


class ExpContext__round_at(Contract):
    target = 'fpy2.number.context.exponential:ExpContext._round_at'
    params = {'self': 'ExpContext', 'x': 'RealFloat | Float', 'n': 'int | None', 'exact': 'bool'}
    returns = 'Float'
    properties = ['C01']
    binds = {'result._ctx': 'self'}
    split = ['x', 'exact']
    options = {'noax_first_ms': 8000}

    def post(self, x, n, exact, result):
        return exp_post(self, x, n, exact, result)

    def raises(self, x, n, exact):
        return exp_raises(self, x, n, exact)


class ExpContext_round(Contract):
    target = 'fpy2.number.context.exponential:ExpContext.round'
    params = {'self': 'ExpContext', 'x': 'RealFloat | Float', 'exact': 'bool'}
    returns = 'Float'
    properties = ['C01']
    binds = {'result._ctx': 'self'}

    def post(self, x, exact, result):
        return exp_post(self, x, None, exact, result)

    def raises(self, x, exact):
        return exp_raises(self, x, None, exact)


class RealContext_round(Contract):
    target = 'fpy2.number.context.real:RealContext.round'
    params = {'self': 'RealContext', 'x': 'RealFloat | Float', 'exact': 'bool'}
    returns = 'Float'
    properties = ['C01']
    binds = {'result._ctx': 'self'}

    def post(self, x, exact, result):
        return real_post(self, x, result)

    def raises(self, x, exact):
        return {}


class RealContext_round_at(Contract):
    target = 'fpy2.number.context.real:RealContext.round_at'
    params = {'self': 'RealContext', 'x': 'RealFloat | Float', 'n': 'int', 'exact': 'bool'}
    returns = 'Float'
    properties = ['C01']

    def raises(self, x, n, exact):
        # there is no rounding position in the real context
        return {'RuntimeError': True}
