"""C16 (second part): EFloatFormat / IEEEFormat functions that delegate to the bounded format underneath."""
from speclib import *
from spec.real import *
from spec.floats import *
from spec.c16 import *
from spec.c16x import *


class EFloatFormat_normalize(Contract):
    target = 'fpy2.number.context.efloat:EFloatFormat.normalize'
    params = {'self': 'EFloatFormat', 'x': 'Float'}
    returns = 'Float'
    properties = ['C16']
    options = {'opaque': {'mps_ord': ['all', 'int'], 'mps_canonical': ['all', 'bool']},
               'light_axioms': True}
    # the existing contract of representable_in covers special values and zeros only: inline it here
    no_use = ['EFloatFormat.representable_in']

    def pre(self, x):
        return {'bounds': mpbfl_bounds(self._mpb_fmt)}

    def post(self, x, result):
        r = result
        fin = fl_finite(x)
        m = self._mpb_fmt._mps_fmt
        return {
            'nan': r._isnan == x._isnan,
            'inf': r._isinf == x._isinf,
            'sign': r._real._s == x._real._s,
            # the sign of zero survives normalisation
            'zero_sign': implies(fin and x._real._c == 0, r._real._c == 0 and r._real._s == x._real._s
                                 and not r._isnan and not r._isinf),
            'B6_value': implies(fin, dy_eqv(r._real, x._real)),
            'B6_canonical': implies(fin, mps_canonical(m, r._real)),
            'ord_preserved': implies(fin, mps_ord(m, r._real) == mps_ord(m, x._real)),
        }

    def raises(self, x):
        return {'TypeError': not ef_member_mpb(self, x)}
