"""C16 (second part): ExpFormat, the powers of two with an nbits-bit exponent word."""
from speclib import *
from spec.real import *
from spec.floats import *
from spec.c16 import *
from spec.c16x import *


class ExpFormat___init__(Contract):
    target = 'fpy2.number.context.exponential:ExpFormat.__init__'
    params = {'self': 'ExpFormat', 'nbits': 'int', 'eoffset': 'int'}
    returns = 'None'
    properties = ['C16']

    def post(self, nbits, eoffset, result):
        return {'nbits': self.nbits == nbits, 'eoffset': self.eoffset == eoffset, 'inv': inv_ExpFormat(self)}

    def raises(self, nbits, eoffset):
        return {'ValueError': nbits <= 0}


class ExpFormat_representable_in(Contract):
    target = 'fpy2.number.context.exponential:ExpFormat.representable_in'
    params = {'self': 'ExpFormat', 'x': 'RealFloat | Float'}
    returns = 'bool'
    properties = ['C16']

    def post(self, x, result):
        return {'B4_member': result == exp_inF(self, x)}

    def raises(self, x):
        return {}


class ExpFormat_decode(Contract):
    target = 'fpy2.number.context.exponential:ExpFormat.decode'
    params = {'self': 'ExpFormat', 'x': 'int'}
    returns = 'Float'
    properties = ['C16']

    def post(self, x, result):
        r = result
        top = pow2(self.nbits) - 1
        return {
            # B1: the all-ones word is the NaN, every other word w is 2^(w - ebias)
            'B1_nan': r._isnan == (x == top),
            'B1_inf': not r._isinf,
            'B1_c': implies(x != top, r._real._c == 1),
            'B1_exp': implies(x != top, r._real._exp == x - exp_ebias(self)),
            'B1_sign': implies(x != top, not r._real._s),
            # B4 (=>): every word decodes to a member
            'B4_member': exp_inF(self, r),
        }

    def raises(self, x):
        return {'ValueError': x < 0 or x >= pow2(self.nbits)}


class ExpFormat_encode(Contract):
    target = 'fpy2.number.context.exponential:ExpFormat.encode'
    params = {'self': 'ExpFormat', 'x': 'Float'}
    returns = 'int'
    properties = ['C16']

    def post(self, x, result):
        top = pow2(self.nbits) - 1
        return {
            'range': 0 <= result and result < pow2(self.nbits),
            # B2: the word decodes to x (ExpFormat_decode#B1: NaN <-> all ones, else 2^(w - ebias))
            'B2_nan': x._isnan == (result == top),
            'B2_value': implies(not x._isnan, result - exp_ebias(self) == e_of(x._real)),
        }

    def raises(self, x):
        # B4: encodable <=> member
        return {'ValueError': not exp_inF(self, x)}


class Exp_word_injective(Lemma):
    """B3: encode(decode(w)) == w for every non-NaN word: decode(w) = 1 * 2^(w - ebias) has e = w - ebias, and
    ExpFormat_encode#B2_value returns e + ebias"""
    params = {'self': 'ExpFormat', 'w': 'int', 'c': 'int', 'exp': 'int'}
    properties = ['C16']

    def pre(self, w, c, exp):
        return {'word': 0 <= w and w < pow2(self.nbits) - 1, 'decoded': c == 1 and exp == w - exp_ebias(self)}

    def post(self, w, c, exp):
        e = exp + bl(c) - 1
        return {'B3_same_word': e + exp_ebias(self) == w,
                'member': self._emin <= e and e <= self._emax}


class ExpFormat__to_ordinal(Contract):
    target = 'fpy2.number.context.exponential:ExpFormat._to_ordinal'
    params = {'self': 'ExpFormat', 'x': 'RealFloat | Float'}
    returns = 'int'
    properties = ['C16']

    def post(self, x, result):
        return {'ord': result == e_of(real_of(x)) + exp_ebias(self)}

    def raises(self, x):
        return {'ValueError': x_isnan(x) or x_isinf(x)}


class ExpFormat_to_ordinal(Contract):
    target = 'fpy2.number.context.exponential:ExpFormat.to_ordinal'
    params = {'self': 'ExpFormat', 'x': 'Float', 'infval': 'bool'}
    returns = 'int'
    properties = ['C16']

    def post(self, x, infval, result):
        return {
            # B5: the ordinal is the word; the finite members fill 0 .. 2^nbits - 2
            'B5_ord': result == e_of(x._real) + exp_ebias(self),
            'B5_range': 0 <= result and result <= pow2(self.nbits) - 2,
        }

    def raises(self, x, infval):
        return {'ValueError': not exp_inF(self, x) or infval or x._isnan}


class ExpFormat_from_ordinal(Contract):
    target = 'fpy2.number.context.exponential:ExpFormat.from_ordinal'
    params = {'self': 'ExpFormat', 'x': 'int', 'infval': 'bool'}
    returns = 'Float'
    properties = ['C16']

    def post(self, x, infval, result):
        r = result
        return {
            'finite': fl_finite(r),
            'member': exp_inF(self, r),
            # B5: to_ordinal(from_ordinal(i)) == i on the contiguous range 0 .. 2^nbits - 2
            'B5_to_from': e_of(r._real) + exp_ebias(self) == x,
            'canonical': r._real._c == 1 and not r._real._s,
        }

    def raises(self, x, infval):
        return {'ValueError': infval or x < 0 or x > pow2(self.nbits) - 2}


class ExpFormat_minval(Contract):
    target = 'fpy2.number.context.exponential:ExpFormat.minval'
    params = {'self': 'ExpFormat', 's': 'bool'}
    returns = 'Float'
    properties = ['C16']

    def post(self, s, result):
        r = result
        return {
            'member': exp_inF(self, r) and fl_finite(r),
            # B6: the least member is the one of ordinal 0
            'B6_ord': e_of(r._real) + exp_ebias(self) == 0,
        }

    def raises(self, s):
        return {'ValueError': s}


class ExpFormat_maxval(Contract):
    target = 'fpy2.number.context.exponential:ExpFormat.maxval'
    params = {'self': 'ExpFormat', 's': 'bool'}
    returns = 'Float'
    properties = ['C16']

    def post(self, s, result):
        r = result
        return {
            'member': exp_inF(self, r) and fl_finite(r),
            # B6: the greatest member is the one of the last ordinal
            'B6_ord': e_of(r._real) + exp_ebias(self) == pow2(self.nbits) - 2,
        }

    def raises(self, s):
        return {'ValueError': s}


class ExpFormat_normalize(Contract):
    target = 'fpy2.number.context.exponential:ExpFormat.normalize'
    params = {'self': 'ExpFormat', 'x': 'Float'}
    returns = 'Float'
    properties = ['C16']

    def post(self, x, result):
        r = result
        fin = fl_finite(x)
        return {
            'nan': r._isnan == x._isnan,
            'inf': r._isinf == x._isinf,
            'sign': implies(fin, r._real._s == x._real._s),
            # B6: same value, canonical significand 1
            'B6_value': implies(fin, dy_eqv(r._real, x._real)),
            'B6_canonical': implies(fin, r._real._c == 1),
            'ord_preserved': implies(fin, e_of(r._real) == e_of(x._real)),
        }

    def raises(self, x):
        return {'ValueError': not exp_inF(self, x)}
