"""
C02 extension (4): the flag rules of ops._normalize and the operand conversions.

  AbsContext_round   TRUSTED interface of the abstract method Context.round for an arbitrary context
  Ops_normalize      ops._normalize under an arbitrary context other than REAL
  Ops_cvt_to_real    ops._cvt_to_real
  Ops_cvt_to_float   ops._cvt_to_float
"""
from speclib import *
from spec.real import *
from spec.floats import *
from spec.c02 import *
from spec.c05 import *
from spec.c02x import *


class AbsContext_round(Contract):
    target = 'fpy2.number.context.context:Context.round'
    params = {'self': 'AbsContext', 'x': 'Float | Fraction', 'exact': 'bool'}
    returns = 'Float'
    properties = ['C02']
    trusted = True
    note = ('interface contract of the abstract method Context.round for an arbitrary context (spec.c02x.AbsContext): '
            'returns a fresh Float whose class, sign, digits and flags are (uninterpreted) functions of the context and '
            'of the operand\'s fields; with exact=False it does not raise.  The concrete families are verified under C01')

    def pre(self, x, exact):
        return {'inexact_allowed': not exact}

    def post(self, x, exact, result):
        r = result
        return {
            'wf': r._real._c >= 0 and not (r._isnan and r._isinf),
            'value': rounded_as(self, x, r),
            'invalid': r._real._flags.invalid == rnd_b('invalid', self, x),
            'divzero': r._real._flags.divzero == rnd_b('divzero', self, x),
            'overflow': r._real._flags.overflow == rnd_b('overflow', self, x),
            'tiny_pre': r._real._flags.tiny_pre == rnd_b('tiny_pre', self, x),
            'tiny_post': r._real._flags.tiny_post == rnd_b('tiny_post', self, x),
            'inexact': r._real._flags.inexact == rnd_b('inexact', self, x),
            'carry': r._real._flags.carry == rnd_b('carry', self, x),
            'fresh': not same_obj(r, x),
        }

    def raises(self, x, exact):
        return {}


class Ops_normalize(Contract):
    """
    ops._normalize(x, ctx, args): the engine result x rounded once by ctx, with the two exception flags that only the
    operation (not the rounding) can know:
      invalid  iff the result is NaN and no operand is NaN                       (IEEE 754 7.2)
      divzero  iff the result is an exact infinity and every operand is finite   (IEEE 754 7.3)
    (in addition to whatever the rounding itself reports); nothing else changes.  Without operands (constants, the
    round-to-integer family) the rounded value is returned as it is.
    """
    target = 'fpy2.ops:_normalize'
    params = {'x': 'Float | Fraction', 'ctx': 'AbsContext',
              'args': 'tuple[()] | tuple[Float | Fraction] | tuple[Float | Fraction, Float | Fraction] | tuple[Float | Fraction, Float | Fraction, Float | Fraction]'}
    returns = 'Float'
    properties = ['C02', 'C03']
    no_use = ['Context_round']

    def post(self, x, ctx, args, result):
        r = result
        n = len(args)
        return {
            'rounded_once': rounded_as(ctx, x, r),
            'invalid': r._real._flags.invalid == (rnd_b('invalid', ctx, x)
                                                  or (n > 0 and r._isnan and not any_nan(args))),
            'divzero': r._real._flags.divzero == (rnd_b('divzero', ctx, x)
                                                  or (n > 0 and not r._isnan and r._isinf and not rnd_b('inexact', ctx, x)
                                                      and not any_nar(args))),
            'overflow': r._real._flags.overflow == rnd_b('overflow', ctx, x),
            'tiny_pre': r._real._flags.tiny_pre == rnd_b('tiny_pre', ctx, x),
            'tiny_post': r._real._flags.tiny_post == rnd_b('tiny_post', ctx, x),
            'inexact': r._real._flags.inexact == rnd_b('inexact', ctx, x),
            'carry': r._real._flags.carry == rnd_b('carry', ctx, x),
        }

    def raises(self, x, ctx, args):
        return {}


class Ops_cvt_to_real(Contract):
    """
    ops._cvt_to_real: every operand kind is converted without changing its value: a Float is passed through
    (same object), a dyadic Fraction / an int / a Python float become the Float denoting the same number
    (NaN, infinities and the sign of zero of a float are kept), a non-dyadic Fraction stays that Fraction.
    """
    target = 'fpy2.ops:_cvt_to_real'
    params = {'x': 'Float | Fraction | int | float'}
    returns = 'Float | Fraction'
    properties = ['C02', 'C03']
    inline = True     # a Float operand is returned as the same object: callers inline the body (HOWTO: no same_obj on modular results)

    def post(self, x, result):
        r = result
        if cls_name(x) == 'Float':
            return {'same_object': same_obj(r, x)}
        if cls_name(x) == 'Fraction':
            return {
                'kind': (cls_name(r) == 'Float') == q_dyadic(x),
                'value': (fl_finite(r) and t_val_q(trip(r)) == x and r._real._s == (x < 0))
                         if cls_name(r) == 'Float' else (r == x),
            }
        if cls_name(x) == 'int':
            return {
                'float': cls_name(r) == 'Float',
                'value': (fl_finite(r) and t_is_int(trip(r), x) and r._real._s == (x < 0)) if cls_name(r) == 'Float' else False,
            }
        # Python float
        return {
            'float': cls_name(r) == 'Float',
            'nan': (r._isnan == f64_isnan(x)) if cls_name(r) == 'Float' else False,
            'inf': (r._isinf == f64_isinf(x)) if cls_name(r) == 'Float' else False,
            'sign': (r._real._s == f64_sign(x)) if cls_name(r) == 'Float' else False,
            'value': (implies(f64_finite(x), r._real._exp == f64_exp(x) and r._real._c == f64_c(x)))
                     if cls_name(r) == 'Float' else False,
        }

    def raises(self, x):
        return {}


class Ops_cvt_to_float(Contract):
    """ops._cvt_to_float: as _cvt_to_real, but a non-dyadic Fraction is rejected (it is not a Float)"""
    target = 'fpy2.ops:_cvt_to_float'
    params = {'x': 'Float | Fraction | int | float'}
    returns = 'Float'
    properties = ['C02', 'C03']
    inline = True

    def post(self, x, result):
        r = result
        if cls_name(x) == 'Float':
            return {'same_object': same_obj(r, x)}
        if cls_name(x) == 'Fraction':
            return {'value': fl_finite(r) and t_val_q(trip(r)) == x and r._real._s == (x < 0)}
        if cls_name(x) == 'int':
            return {'value': fl_finite(r) and t_is_int(trip(r), x) and r._real._s == (x < 0)}
        return {
            'nan': r._isnan == f64_isnan(x),
            'inf': r._isinf == f64_isinf(x),
            'sign': r._real._s == f64_sign(x),
            'value': implies(f64_finite(x), r._real._exp == f64_exp(x) and r._real._c == f64_c(x)),
        }

    def raises(self, x):
        return {'ValueError': (not q_dyadic(x)) if cls_name(x) == 'Fraction' else False}
