"""
C04 / P3: emission of a `with` block (semantics.rst E-With; derived-semantics.rst "Context"):

    try:
        <tmp> = __ctx__              # stash the context in force
        __ctx__ = __fpy_real         # the constructor's arguments are evaluated exactly
        <target> = __ctx__ = <ctx>   # the new context is active for exactly the body
        <body>
    finally:
        __ctx__ = <tmp>              # ... and the previous one is back afterwards (also on an early return)

The stash variable must be private to THIS block: its name is exactly the text of the identifier that
`Gensym.fresh` returned (the gensym guarantees that identifier is unused; any other spelling -- a prefix of it,
its base -- can collide with the stash of an enclosing block, which then restores the wrong context).

ASSUMED (trusted, abstracted to opaque codes): the sub-visits `_visit_target`, `_visit_expr`, `_visit_block`
and `Gensym.fresh` (returns an identifier that is in no enclosing scope); `str(id)` of an identifier is the
opaque code ghost('idtext', id).
"""
from speclib import *
from spec.c04 import *


class BC__visit_target(Contract):
    target = 'fpy2.interpret.byte:BytecodeCompiler._visit_target'
    params = {'self': 'BytecodeCompiler', 'target': 'Key[Id]'}
    returns = 'int'
    properties = ['C04']
    trusted = True
    may_raise = ['NotImplementedError']
    note = 'ASSUMED: the emitted store target of a binding, abstracted to the opaque code ghost("pytarget", target)'

    def post(self, target, result):
        return {'code': result == ghost('pytarget', target)}


class BC__visit_block(Contract):
    target = 'fpy2.interpret.byte:BytecodeCompiler._visit_block'
    params = {'self': 'BytecodeCompiler', 'block': 'Key[StmtBlock]', 'ctx': 'None'}
    returns = 'list[int]'
    properties = ['C04']
    trusted = True
    may_raise = ['NotImplementedError']
    note = ('ASSUMED: the emitted statements of a block, abstracted to a sequence of opaque codes '
            '(element k = ghost("pystmt", block, k))')

    def post(self, block, result):
        return {'len': len(result) == ghost('pyblock_len', block)}


class Gensym_fresh(Contract):
    target = 'fpy2.utils.gensym:Gensym.fresh'
    params = {'self': 'Gensym', 'prefix': 'str'}
    returns = 'Key[NamedId]'
    properties = ['C04']
    trusted = True
    modifies = ['self._idents', 'self._generated', 'self._counter']
    note = 'ASSUMED: Gensym.fresh returns an identifier that no scope of the program uses (C15/gensym not re-verified here)'

    def post(self, result, old):
        return {'ident': result == ghost_key('gensym_fresh', 'NamedId', old.self._counter),
                'advances': self._counter > old.self._counter}


class BC__visit_context(Contract):
    target = 'fpy2.interpret.byte:BytecodeCompiler._visit_context'
    params = {'self': 'BytecodeCompiler', 'stmt': 'ContextStmt', 'ctx': 'None'}
    overrides = {'stmt.target': 'Key[Id]', 'stmt.ctx': 'Key[Expr]', 'stmt.body': 'Key[StmtBlock]'}
    returns = 'Any'
    properties = ['C04']
    may_raise = ['NotImplementedError']
    modifies = ['self.gensym._counter', 'self.gensym._idents', 'self.gensym._generated']
    options = {'key_text': True, 'key_attrs': {'NamedId.base': 'str', 'NamedId.count': 'int | None'}}

    def post(self, stmt, result, old):
        g = ghost_key('gensym_fresh', 'NamedId', old.self.gensym._counter)
        return with_block(result, ghost('pytarget', stmt.target), ghost('pyexpr', stmt.ctx),
                          ghost('pyblock_len', stmt.body), ghost('idtext', g))
