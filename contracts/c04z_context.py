"""
C04 / P3: emission of a `with` block (semantics.rst E-With; derived-semantics.rst "Context"):

    try:
        <tmp> = __ctx__              # stash the context in force
        __ctx__ = __fpy_real         # the constructor's arguments are evaluated exactly
        <target> = __ctx__ = <ctx>   # the new context is active for exactly the body
        <body>
    finally:
        __ctx__ = <tmp>              # ... and the previous one is back afterwards (also on an early return)

The stash variable must be private to THIS block: its name is exactly the text of the identifier that
`Gensym.fresh` returned (the gensym guarantees that identifier is unused; any other spelling -- a prefix of it,
its base -- can collide with the stash of an enclosing block, which then restores the wrong context).

ASSUMED (trusted, abstracted to opaque codes): the sub-visits `_visit_target`, `_visit_expr`, `_visit_block`
and `Gensym.fresh` (returns an identifier that is in no enclosing scope); `str(id)` of an identifier is the
opaque code ghost('idtext', id).
"""
from speclib import *
from spec.c04 import *


class BC__visit_target(Contract):
    target = 'fpy2.interpret.byte:BytecodeCompiler._visit_target'
    params = {'self': 'BytecodeCompiler', 'target': 'Key[Id]'}
    returns = 'int'
    properties = ['C04']
    trusted = True
    may_raise = ['NotImplementedError']
    note = 'ASSUMED: the emitted store target of a binding, abstracted to the opaque code ghost("pytarget", target)'

    def post(self, target, result):
        return {'code': result == ghost('pytarget', target)}


class BC__visit_block(Contract):
    target = 'fpy2.interpret.byte:BytecodeCompiler._visit_block'
    params = {'self': 'BytecodeCompiler', 'block': 'Key[StmtBlock]', 'ctx': 'None'}
    returns = 'list[int]'
    properties = ['C04']
    trusted = True
    may_raise = ['NotImplementedError']
    note = ('ASSUMED: the emitted statements of a block, abstracted to a sequence of opaque codes '
            '(element k = ghost("pystmt", block, k))')

    def post(self, block, result):
        return {'len': len(result) == ghost('pyblock_len', block)}


class Gensym_fresh(Contract):
    target = 'fpy2.utils.gensym:Gensym.fresh'
    params = {'self': 'Gensym', 'prefix': 'str'}
    returns = 'Key[NamedId]'
    properties = ['C04']
    trusted = True
    modifies = ['self._idents', 'self._generated', 'self._counter']
    note = 'ASSUMED: Gensym.fresh returns an identifier that no scope of the program uses (C15/gensym not re-verified here)'

    def post(self, result, old):
        return {'ident': result == ghost_key('gensym_fresh', 'NamedId', old.self._counter),
                'advances': self._counter > old.self._counter}


class BC__visit_context(Contract):
    target = 'fpy2.interpret.byte:BytecodeCompiler._visit_context'
    params = {'self': 'BytecodeCompiler', 'stmt': 'ContextStmt', 'ctx': 'None'}
    overrides = {'stmt.target': 'Key[Id]', 'stmt.ctx': 'Key[Expr]', 'stmt.body': 'Key[StmtBlock]'}
    returns = 'Any'
    properties = ['C04']
    may_raise = ['NotImplementedError']
    modifies = ['self.gensym._counter', 'self.gensym._idents', 'self.gensym._generated']
    options = {'key_text': True, 'key_attrs': {'NamedId.base': 'str', 'NamedId.count': 'int | None'}}

    def post(self, stmt, result, old):
        g = ghost_key('gensym_fresh', 'NamedId', old.self.gensym._counter)
        return with_block(result, ghost('pytarget', stmt.target), ghost('pyexpr', stmt.ctx),
                          ghost('pyblock_len', stmt.body), ghost('idtext', g))


# ---------------------------------------------------------------------------
# P3b: emission of control flow and simple statements (semantics.rst S-If, S-While, S-For, S-Assign, S-Return):
# each statement node becomes the Python statement of the same kind over the emitted codes of ITS OWN parts
# (condition / branches / target / iterable, none swapped or dropped).  A block's emitted code is abstract: it is
# identified by its length ghost('pyblock_len', block), an uninterpreted function of the block, so `body` built
# from the wrong block (or from the right block with statements added or dropped) fails; a permutation of the
# right block's statements would not (the elements are trusted to `_visit_block`).

def block_is(seq, block):
    return len(seq) == ghost('pyblock_len', block)


class BC__visit_if1(Contract):
    target = 'fpy2.interpret.byte:BytecodeCompiler._visit_if1'
    params = {'self': 'BytecodeCompiler', 'stmt': 'If1Stmt', 'ctx': 'None'}
    overrides = {'stmt.cond': 'Key[Expr]', 'stmt.body': 'Key[StmtBlock]'}
    returns = 'Any'
    properties = ['C04']
    may_raise = ['NotImplementedError']

    def post(self, stmt, result):
        ok = cons_name(result) == 'If'
        return {'is_if': ok,
                'test': (result.test == ghost('pyexpr', stmt.cond)) if ok else False,
                'then': block_is(result.body, stmt.body) if ok else False,
                'no_else': (len(result.orelse) == 0) if ok else False}


class BC__visit_if(Contract):
    target = 'fpy2.interpret.byte:BytecodeCompiler._visit_if'
    params = {'self': 'BytecodeCompiler', 'stmt': 'IfStmt', 'ctx': 'None'}
    overrides = {'stmt.cond': 'Key[Expr]', 'stmt.ift': 'Key[StmtBlock]', 'stmt.iff': 'Key[StmtBlock]'}
    returns = 'Any'
    properties = ['C04']
    may_raise = ['NotImplementedError']

    def post(self, stmt, result):
        ok = cons_name(result) == 'If'
        return {'is_if': ok,
                'test': (result.test == ghost('pyexpr', stmt.cond)) if ok else False,
                'then': block_is(result.body, stmt.ift) if ok else False,
                'else': block_is(result.orelse, stmt.iff) if ok else False}


class BC__visit_while(Contract):
    target = 'fpy2.interpret.byte:BytecodeCompiler._visit_while'
    params = {'self': 'BytecodeCompiler', 'stmt': 'WhileStmt', 'ctx': 'None'}
    overrides = {'stmt.cond': 'Key[Expr]', 'stmt.body': 'Key[StmtBlock]'}
    returns = 'Any'
    properties = ['C04']
    may_raise = ['NotImplementedError']

    def post(self, stmt, result):
        ok = cons_name(result) == 'While'
        return {'is_while': ok,
                'test': (result.test == ghost('pyexpr', stmt.cond)) if ok else False,
                'body': block_is(result.body, stmt.body) if ok else False,
                'no_else': (len(result.orelse) == 0) if ok else False}


class BC__visit_for(Contract):
    target = 'fpy2.interpret.byte:BytecodeCompiler._visit_for'
    params = {'self': 'BytecodeCompiler', 'stmt': 'ForStmt', 'ctx': 'None'}
    overrides = {'stmt.target': 'Key[Id]', 'stmt.iterable': 'Key[Expr]', 'stmt.body': 'Key[StmtBlock]'}
    returns = 'Any'
    properties = ['C04']
    may_raise = ['NotImplementedError']

    def post(self, stmt, result):
        ok = cons_name(result) == 'For'
        return {'is_for': ok,
                'target': (result.target == ghost('pytarget', stmt.target)) if ok else False,
                'iter': (result.iter == ghost('pyexpr', stmt.iterable)) if ok else False,
                'body': block_is(result.body, stmt.body) if ok else False,
                'no_else': (len(result.orelse) == 0) if ok else False}


class BC__visit_assign(Contract):
    target = 'fpy2.interpret.byte:BytecodeCompiler._visit_assign'
    params = {'self': 'BytecodeCompiler', 'stmt': 'Assign', 'ctx': 'None'}
    overrides = {'stmt.target': 'Key[Id]', 'stmt.expr': 'Key[Expr]'}
    returns = 'Any'
    properties = ['C04']
    may_raise = ['NotImplementedError']

    def post(self, stmt, result):
        ok = cons_name(result) == 'Assign'
        return {'is_assign': ok,
                'one_target': (len(result.targets) == 1 and result.targets[0] == ghost('pytarget', stmt.target)) if ok else False,
                'value': (result.value == ghost('pyexpr', stmt.expr)) if ok else False}


class BC__visit_return(Contract):
    target = 'fpy2.interpret.byte:BytecodeCompiler._visit_return'
    params = {'self': 'BytecodeCompiler', 'stmt': 'ReturnStmt', 'ctx': 'None'}
    overrides = {'stmt.expr': 'Key[Expr]'}
    returns = 'Any'
    properties = ['C04']
    may_raise = ['NotImplementedError']

    def post(self, stmt, result):
        ok = cons_name(result) == 'Return'
        return {'is_return': ok, 'value': (result.value == ghost('pyexpr', stmt.expr)) if ok else False}


class BC__visit_effect(Contract):
    target = 'fpy2.interpret.byte:BytecodeCompiler._visit_effect'
    params = {'self': 'BytecodeCompiler', 'stmt': 'EffectStmt', 'ctx': 'None'}
    overrides = {'stmt.expr': 'Key[Expr]'}
    returns = 'Any'
    properties = ['C04']
    may_raise = ['NotImplementedError']

    def post(self, stmt, result):
        ok = cons_name(result) == 'Expr'
        return {'is_expr_stmt': ok, 'value': (result.value == ghost('pyexpr', stmt.expr)) if ok else False}


class BC__visit_if_expr(Contract):
    target = 'fpy2.interpret.byte:BytecodeCompiler._visit_if_expr'
    params = {'self': 'BytecodeCompiler', 'e': 'IfExpr', 'ctx': 'None'}
    overrides = {'e.cond': 'Key[Expr]', 'e.ift': 'Key[Expr]', 'e.iff': 'Key[Expr]'}
    returns = 'Any'
    properties = ['C04']
    may_raise = ['NotImplementedError']

    def post(self, e, result):
        ok = cons_name(result) == 'IfExp'
        return {'is_ifexp': ok,
                'test': (result.test == ghost('pyexpr', e.cond)) if ok else False,
                'then': (result.body == ghost('pyexpr', e.ift)) if ok else False,
                'else': (result.orelse == ghost('pyexpr', e.iff)) if ok else False}
