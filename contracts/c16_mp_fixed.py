from speclib import *
from spec.real import *
from spec.floats import *
from spec.c16 import *


class MPFixedFormat_representable_in(Contract):
    target = 'fpy2.number.context.mp_fixed:MPFixedFormat.representable_in'
    params = {'self': 'MPFixedFormat', 'x': 'RealFloat | Float'}
    returns = 'bool'
    properties = ['C16']

    def post(self, x, result):
        # B4: representable_in(x) <=> x in F(nmin): multiples of 2^(nmin+1), NaN/inf/-0 by the enable flags
        return {'B4_member': result == fx_inF(self, x)}

    def raises(self, x):
        return {}


class MPFixedFormat__to_ordinal(Contract):
    target = 'fpy2.number.context.mp_fixed:MPFixedFormat._to_ordinal'
    params = {'self': 'MPFixedFormat', 'x': 'RealFloat'}
    returns = 'int'
    properties = ['C16']

    def pre(self, x):
        return {'member': mult_of(x, fx_expmin(self))}

    def post(self, x, result):
        return {'ord': result == fx_ord(self, x)}

    def raises(self, x):
        return {}


class MPFixedFormat_to_ordinal(Contract):
    target = 'fpy2.number.context.mp_fixed:MPFixedFormat.to_ordinal'
    params = {'self': 'MPFixedFormat', 'x': 'Float', 'infval': 'bool'}
    returns = 'int'
    properties = ['C16']

    def post(self, x, infval, result):
        # B5: the ordinal of a finite member is its value in units of the format's spacing
        return {'B5_ord': result == fx_ord(self, x._real)}

    def raises(self, x, infval):
        return {'ValueError': not fx_inF(self, x) or infval or x._isnan or x._isinf}


class MPFixedFormat_from_ordinal(Contract):
    target = 'fpy2.number.context.mp_fixed:MPFixedFormat.from_ordinal'
    params = {'self': 'MPFixedFormat', 'x': 'int', 'infval': 'bool'}
    returns = 'Float'
    properties = ['C16']

    def post(self, x, infval, result):
        r = result
        return {
            # B5: every integer is an ordinal (the range is contiguous: all of Z) ...
            'finite': fl_finite(r),
            'member': fx_inF(self, r),
            # ... and to_ordinal(from_ordinal(i)) == i
            'B5_to_from': fx_ord(self, r._real) == x,
            'canonical': implies(x != 0, r._real._exp == fx_expmin(self)),
            'wf': r._real._c >= 0,
        }

    def raises(self, x, infval):
        return {'ValueError': infval}


class MPFixed_mag_monotone(Lemma):
    """magnitudes of finite members compare like their values in units of 2^(nmin+1)"""
    params = {'self': 'MPFixedFormat', 'x': 'RealFloat', 'y': 'RealFloat'}
    properties = ['C16']
    options = {'split_heavy': True, 'schemas': ['MM']}

    def pre(self, x, y):
        return {'x_member': mult_of(x, fx_expmin(self)), 'y_member': mult_of(y, fx_expmin(self))}

    def post(self, x, y):
        E = fx_expmin(self)
        fork(x._exp >= E)
        fork(y._exp >= E)
        fork(x._exp <= y._exp)
        return {
            'lt': mag_lt(x, y) == (val_at(x, E) < val_at(y, E)),
            'eq': mag_eq(x, y) == (val_at(x, E) == val_at(y, E)),
            'nonneg': val_at(x, E) >= 0,
            'zero': (x._c == 0) == (val_at(x, E) == 0),
        }


class MPFixed_ord_monotone(Lemma):
    """
    B5: on finite members the ordinal map is strictly increasing and identifies only equal values.
    Stated for vx = val_at(x, expmin), vy = val_at(y, expmin) (so fx_ord(x) = sgn(x.s, vx)); the
    hypotheses about vx, vy are the conclusions of MPFixed_mag_monotone for (x, y) and (y, x).
    """
    params = {'self': 'MPFixedFormat', 'x': 'RealFloat', 'y': 'RealFloat', 'vx': 'int', 'vy': 'int'}
    properties = ['C16']

    def pre(self, x, y, vx, vy):
        return {
            'mag_xy': mag_lt(x, y) == (vx < vy),
            'mag_yx': mag_lt(y, x) == (vy < vx),
            'mag_eq': mag_eq(x, y) == (vx == vy),
            'nonneg': vx >= 0 and vy >= 0,
            'zero': (x._c == 0) == (vx == 0) and (y._c == 0) == (vy == 0),
        }

    def post(self, x, y, vx, vy):
        fork(x._s)
        fork(y._s)
        return {
            'B5_strict': dy_lt(x, y) == (sgn(x._s, vx) < sgn(y._s, vy)),
            'B5_injective': dy_eqv(x, y) == (sgn(x._s, vx) == sgn(y._s, vy)),
        }


class MPFixedFormat_minval(Contract):
    target = 'fpy2.number.context.mp_fixed:MPFixedFormat.minval'
    params = {'self': 'MPFixedFormat', 's': 'bool'}
    returns = 'Float'
    properties = ['C16']

    def post(self, s, result):
        r = result
        return {
            # B6: the member of least non-zero magnitude with the requested sign = ordinal +/-1
            'finite': fl_finite(r),
            'member': fx_inF(self, r),
            'sign': r._real._s == s,
            'B6_ord': fx_ord(self, r._real) == ite(s, -1, 1),
        }

    def raises(self, s):
        return {}


class MPFixedFormat_normalize(Contract):
    target = 'fpy2.number.context.mp_fixed:MPFixedFormat.normalize'
    params = {'self': 'MPFixedFormat', 'x': 'Float'}
    returns = 'Float'
    properties = ['C16']

    def pre(self, x):
        return {'member': fx_inF(self, x)}

    def post(self, x, result):
        r = result
        fin = fl_finite(x)
        return {
            # B6: value-preserving ...
            'nan': r._isnan == x._isnan,
            'inf': r._isinf == x._isinf,
            'sign': r._real._s == x._real._s,
            'B6_value': implies(fin, dy_eqv(r._real, x._real)),
            # ... and canonical: the lsb sits at expmin
            'B6_canonical': implies(fin, r._real._exp == fx_expmin(self)),
            'wf': r._real._c >= 0,
        }

    def raises(self, x):
        return {}
