"""
C07 / O4 (extension): `_Eliminator._scrub_binding(binding, site)` rewrites a leaf of a tuple-destructuring target to
`_` ONLY IF the definition the leaf introduces is dead.

    post  for every position i of the binding:
            the element is kept as it is, or
            it is a NamedId leaf replaced by an UnderscoreId and the definition d = find_def_from_site(leaf, site)
                has no use site and every phi fed by d is itself dead          (dead: spec.c07y.leaf_dead, built from
                                                                                spec.c07.no_uses / dead_phi)
                and d is not live in the TRANSITIVE sense                      (not_live: spec.c07y.live, the fixed
                                                                                point `use, or feeds a live phi`)
            or it is a nested TupleBinding replaced by a TupleBinding (the result of the recursive call on it, to
                which this contract applies: induction over the nesting depth)
          arity kept; the very same object is returned when nothing was rewritten at this level

The binding under verification is a real TupleBinding whose elements are abstract nodes (`Key[Target]`, class
symbolic over NamedId / UnderscoreId / SourceId / TupleBinding); BOUNDED IN THE ARITY (1, 2 and 3 elements, one
contract each), unbounded in the nesting depth (modular self-call).

ASSUMED (axioms): find_def_from_site (mirror spec.c07y.DUModelY: the ghost site_def) of a NamedId leaf is an AssignDef
that is a key of du.uses / du.successors; the def-use analysis through its abstract interface (spec.c07.DUModel).
"""
from speclib import *
from spec.c07 import *
from spec.c07y import *


def _site_defs_known(du, binding, site):
    """ASSUMED well-formedness of the analysis for the target of `site`: the lookup of a NamedId leaf of the binding
    (spec.c07y.site_def, the mirror of find_def_from_site) is an AssignDef that is a key of du.uses / du.successors"""
    out = {}
    for i in range(len(binding.elts)):
        d = site_def(du, binding.elts[i], site)
        out['site_def_' + str(i)] = implies(key_isa(binding.elts[i], 'NamedId'),
                                            (d in du.uses) and (d in du.successors) and key_isa(d, 'AssignDef'))
    return out


def _elt_clause(du, site, a, b):
    """a: element of the input binding (abstract node), b: the element at the same position of the result"""
    if b is a:
        return True
    if cls_name(b) == 'UnderscoreId':
        return key_isa(a, 'NamedId') and leaf_dead(du, site_def(du, a, site))
    if cls_name(b) == 'TupleBinding':
        return key_isa(a, 'TupleBinding')
    return False


def _elt_not_live(du, site, a, b):
    if b is a:
        return True
    if cls_name(b) == 'UnderscoreId':
        return not live(du, site_def(du, a, site))
    return True


def _scrub_post(self, binding, site, result):
    if cls_name(binding) != 'TupleBinding':
        # modular self-call on a nested binding (an abstract node): the result is some TupleBinding, described by
        # this contract applied to the nested binding itself (induction)
        return {'binding': cls_name(result) == 'TupleBinding'}
    du = self.def_use
    n = len(binding.elts)
    out = {'arity': len(result.elts) == n}
    kept = True
    for i in range(n):
        if i < len(result.elts):
            out['dead_' + str(i)] = _elt_clause(du, site, binding.elts[i], result.elts[i])
            out['not_live_' + str(i)] = _elt_not_live(du, site, binding.elts[i], result.elts[i])
            kept = kept and (result.elts[i] is binding.elts[i])
    out['same_iff_kept'] = (result is binding) == kept
    return out


class C07y_scrub_binding_2(Contract):
    target = 'fpy2.transform.dead_code:_Eliminator._scrub_binding'
    params = {'self': '_Eliminator', 'binding': 'TupleBinding', 'site': 'Key[DefSite]'}
    overrides = {'self.def_use': 'DUModelY', 'binding.elts': 'tuple[Key[Target], Key[Target]]'}
    returns = 'TupleBinding'
    properties = ['C07']
    options = {'key_attrs': 'spec.c07:KEY_ATTRS', 'feas_ms': 40, 'refute_universe': {'Definition': 3, 'UseSite': 2}}
    note = ('binding of 2 elements (C07y_scrub_binding_1 / _3: 1 and 3); nested bindings by modular self-call; '
            'axioms = the defining fixed-point equation of the ghost `live`')

    def axioms(self, binding, site):
        return dict(_site_defs_known(self.def_use, binding, site), live_def=live_def(self.def_use))

    def post(self, binding, site, result):
        return _scrub_post(self, binding, site, result)

    def raises(self, binding, site):
        return {}


class C07y_scrub_binding_1(Contract):
    target = 'fpy2.transform.dead_code:_Eliminator._scrub_binding'
    params = {'self': '_Eliminator', 'binding': 'TupleBinding', 'site': 'Key[DefSite]'}
    overrides = {'self.def_use': 'DUModelY', 'binding.elts': 'tuple[Key[Target]]'}
    returns = 'TupleBinding'
    properties = ['C07']
    options = {'key_attrs': 'spec.c07:KEY_ATTRS', 'feas_ms': 40, 'refute_universe': {'Definition': 3, 'UseSite': 2}}
    note = 'binding of 1 element; see C07y_scrub_binding_2'

    def axioms(self, binding, site):
        return dict(_site_defs_known(self.def_use, binding, site), live_def=live_def(self.def_use))

    def post(self, binding, site, result):
        return _scrub_post(self, binding, site, result)

    def raises(self, binding, site):
        return {}


class C07y_scrub_binding_3(Contract):
    target = 'fpy2.transform.dead_code:_Eliminator._scrub_binding'
    params = {'self': '_Eliminator', 'binding': 'TupleBinding', 'site': 'Key[DefSite]'}
    overrides = {'self.def_use': 'DUModelY', 'binding.elts': 'tuple[Key[Target], Key[Target], Key[Target]]'}
    returns = 'TupleBinding'
    properties = ['C07']
    options = {'key_attrs': 'spec.c07:KEY_ATTRS', 'feas_ms': 40, 'refute_universe': {'Definition': 3, 'UseSite': 2}}
    note = 'binding of 3 elements; see C07y_scrub_binding_2'

    def axioms(self, binding, site):
        return dict(_site_defs_known(self.def_use, binding, site), live_def=live_def(self.def_use))

    def post(self, binding, site, result):
        return _scrub_post(self, binding, site, result)

    def raises(self, binding, site):
        return {}
