"""
C02 extension (1): the round-to-integer family.

  MpfrValue              gmputils.mpfr_value(x, prec, n): the round-to-odd intermediate of the conversion primitive
  RealEngine_real_rint   RealEngine._real_rint
"""
from speclib import *
from spec.real import *
from spec.floats import *
from spec.c02 import *
from spec.c02x import *
from fpy2.number.round import RoundingMode


class MpfrValue(Contract):
    target = 'fpy2.number.gmputils:mpfr_value'
    params = {'x': 'Fraction', 'prec': 'int | None', 'n': 'int | None'}
    returns = 'Float'
    properties = ['C02', 'C03']

    def pre(self, x, prec, n):
        return {'prec_pos': prec is None or prec >= 1}

    def post(self, x, prec, n, result):
        r = result
        y = app_id(FID['gmpy2.mpfr'], (x,))
        return {
            'rto_of_value': rto_of(y, r, prec, n),
            'no_ctx': r._ctx is None,
        }

    def raises(self, x, prec, n):
        return {'ValueError': prec is None and n is None}


class L5_scale(Lemma):
    """
    The fine representation of a real rounds the same at every scale (spec.c02 item 3).  y > 0 real, digits at a
    scale E: D = floor(y / 2^E), S = (y mod 2^E != 0); digits at the coarser scale E + j, J = 2^j:
    h = floor(D / J) = floor(y / 2^(E+j)), st = S or (D mod J != 0).  Rounding fine_c(D, S) on the grid 4*J and
    fine_c(h, st) on the grid 4 agree in all four components, for every mode and sign.
    Clauses are proof steps (option `chain`).
    """
    params = {'s': 'bool', 'D': 'int', 'S': 'bool', 'J': 'int', 'h': 'int', 'st': 'bool',
              'p': 'int | None', 'n': 'int', 'rm': 'RoundingMode'}
    properties = ['C02', 'C03']
    split = ['rm']
    options = {'chain': True}

    def pre(self, s, D, S, J, h, st, p, n, rm):
        return {'D': D >= 0, 'J': J >= 1, 'h': h == fdiv(D, J), 'st': st == (S or fmod(D, J) != 0),
                'p': p is None or p >= 1}

    def post(self, s, D, S, J, h, st, p, n, rm):
        r = fmod(D, J)
        c1 = fine_c(D, S)
        c2 = fine_c(h, st)
        q1 = fdiv(c1, 4 * J)
        r1 = fmod(c1, 4 * J)
        q2 = fdiv(c2, 4)
        r2 = fmod(c2, 4)
        hq = fdiv(h, 2)
        hb = fmod(h, 2)
        X = rnd_grid(s, c1, 4 * J, p, n, rm)
        Y = rnd_grid(s, c2, 4, p, n, rm)
        return {
            'div': D == h * J + r and 0 <= r and r < J and h >= 0,
            'h_split': h == 2 * hq + hb and 0 <= hb and hb <= 1,
            'c1': c1 == hq * (4 * J) + (hb * (2 * J) + 2 * r + b2i(S)),
            'c1_rem_range': 0 <= hb * (2 * J) + 2 * r + b2i(S) and hb * (2 * J) + 2 * r + b2i(S) < 4 * J,
            'quotient1': q1 == hq,
            'remainder1': r1 == hb * (2 * J) + 2 * r + b2i(S),
            'quotient2': q2 == hq,
            'remainder2': r2 == 2 * hb + b2i(st),
            'zero_iff': (r1 == 0) == (r2 == 0),
            'above_half_iff': (2 * r1 > 4 * J) == (2 * r2 > 4),
            'half_iff': (2 * r1 == 4 * J) == (2 * r2 == 4),
            'increment': incr(rm, s, q1, r1, 4 * J) == incr(rm, s, q2, r2, 4),
            'exp': X[0] == Y[0],
            'c': X[1] == Y[1],
            'inexact': X[2] == Y[2],
            'carry': X[3] == Y[3],
        }


class Rint_textbook(Lemma):
    """
    Rounding the rational N/d >= 0 to an integer through the fine representation at scale -1
    (2*floor(2N/d) + sticky on the grid 4) equals the textbook definition (N = q*d + rho on the grid d).
    """
    params = {'s': 'bool', 'N': 'int', 'd': 'int', 'rm': 'RoundingMode'}
    properties = ['C02']
    split = ['rm']
    options = {'chain': True}

    def pre(self, s, N, d, rm):
        return {'N': N >= 0, 'd': d >= 1}

    def post(self, s, N, d, rm):
        h = fdiv(2 * N, d)
        t = fmod(2 * N, d)
        q = fdiv(N, d)
        rho = fmod(N, d)
        c2 = fine_c(h, t != 0)
        q2 = fdiv(c2, 4)
        r2 = fmod(c2, 4)
        hq = fdiv(h, 2)
        hb = fmod(h, 2)
        X = rnd_grid(s, c2, 4, None, -1, rm)
        Y = rnd_grid(s, N, d, None, -1, rm)
        return {
            'div_h': 2 * N == h * d + t and 0 <= t and t < d,
            'div_q': N == q * d + rho and 0 <= rho and rho < d,
            'h_split': h == 2 * hq + hb and 0 <= hb and hb <= 1,
            # 2N = 2q*d + 2rho: the half digit is (2*rho >= d)
            'two_rho': 2 * N == (2 * q) * d + 2 * rho,
            'h_low': implies(2 * rho < d, h == 2 * q and t == 2 * rho),
            'h_high': implies(2 * rho >= d, h == 2 * q + 1 and t == 2 * rho - d),
            'quotient': q2 == q,
            'remainder': r2 == 2 * hb + b2i(t != 0),
            'zero_iff': (r2 == 0) == (rho == 0),
            'above_half_iff': (2 * r2 > 4) == (2 * rho > d),
            'half_iff': (2 * r2 == 4) == (2 * rho == d),
            'increment': incr(rm, s, q2, r2, 4) == incr(rm, s, q, rho, d),
            'exp': X[0] == Y[0] and X[0] == 0,
            'c': X[1] == Y[1],
            'inexact': X[2] == Y[2],
            'carry': X[3] == Y[3] and not X[3],
        }


class RealEngine_real_rint(Contract):
    """
    RealEngine._real_rint(x, rm): x rounded to an integer in mode rm (fixed-point rounding at n = -1 of the EXACT
    operand).  A Float operand is rounded directly (RealFloat.round, C01); a Fraction goes through
    mpfr_value(x, n=-1), whose round-to-odd result has its last digit at E <= -2 and therefore re-rounds at n = -1
    like x itself: L5_core (RTO -> fine representation at scale E), L5_scale (scale E -> scale -1), Rint_textbook
    (scale -1 -> the textbook definition on the grid of the denominator).
    """
    target = 'fpy2.number.engine.real:RealEngine._real_rint'
    params = {'self': 'RealEngine', 'x': 'Float | Fraction', 'rm': 'RoundingMode'}
    returns = 'Float'
    properties = ['C02']
    split = ['rm']
    note = ('ASSUMED (axioms): the conversion primitive gmpy2.mpfr denotes its rational argument, '
            'sem(gmpy2.mpfr)(q) = q: class (finite; zero iff q == 0), sign, and digits at scale -1 '
            '(floor(2|q|), stickiness of 2|q|); and for every real y the digit functions at two scales cohere: '
            'y_dig(y, k+j) = floor(y_dig(y, k) / 2^j), y_stk(y, k+j) = y_stk(y, k) or y_dig(y, k) mod 2^j != 0 '
            '(instantiated at k = the round-to-odd position E, k+j = -1)')

    def axioms(self, x, rm):
        if cls_name(x) != 'Fraction':
            return {}
        y = app_id(FID['gmpy2.mpfr'], (x,))
        E = rto_exp(y_e(y), None, -1)
        J = pow2(-1 - E)
        return {
            'sem_class': not y_nan(y) and not y_inf(y) and y_zero(y) == (x == 0),
            'sem_sign': y_neg(y) == (x < 0),
            'sem_dig': y_dig(y, -1) == half_dig(x),
            'sem_stk': y_stk(y, -1) == half_stk(x),
            'dig_nonneg': y_dig(y, E) >= 0,
            'cohere_dig': y_dig(y, -1) == fdiv(y_dig(y, E), J),
            'cohere_stk': y_stk(y, -1) == (y_stk(y, E) or fmod(y_dig(y, E), J) != 0),
        }

    def post(self, x, rm, result):
        if cls_name(x) == 'Fraction' and x != 0:
            y = app_id(FID['gmpy2.mpfr'], (x,))
            E = rto_exp(y_e(y), None, -1)
            D = y_dig(y, E)
            S = y_stk(y, E)
            s = x < 0
            apply_lemma('L5_core', s=s, dig=D, stk=S, A=pow2(-E), H=pow2(-2 - E), A2=pow2(1 - E), p=None, n=-1, rm=rm)
            apply_lemma('L5_scale', s=s, D=D, S=S, J=pow2(-1 - E), h=half_dig(x), st=half_stk(x), p=None, n=-1, rm=rm)
            apply_lemma('Rint_textbook', s=s, N=q_abs_num(x), d=frac_den(x), rm=rm)
        return rint_clauses(x, rm, result)

    def raises(self, x, rm):
        return {}



class RealEngine_ceil(Contract):
    """IEEE 754 5.9 roundToIntegralTowardPositive: the exact operand rounded to an integer in mode RTP"""
    target = 'fpy2.number.engine.real:RealEngine.ceil'
    params = {'self': 'RealEngine', 'x': 'Float | Fraction', 'ctx': 'Context'}
    returns = 'Float'
    properties = ['C02']

    def post(self, x, ctx, result):
        return rint_clauses(x, RoundingMode.RTP, result)

    def raises(self, x, ctx):
        return {}


class RealEngine_floor(Contract):
    """IEEE 754 5.9 roundToIntegralTowardNegative: the exact operand rounded to an integer in mode RTN"""
    target = 'fpy2.number.engine.real:RealEngine.floor'
    params = {'self': 'RealEngine', 'x': 'Float | Fraction', 'ctx': 'Context'}
    returns = 'Float'
    properties = ['C02']

    def post(self, x, ctx, result):
        return rint_clauses(x, RoundingMode.RTN, result)

    def raises(self, x, ctx):
        return {}


class RealEngine_trunc(Contract):
    """IEEE 754 5.9 roundToIntegralTowardZero: the exact operand rounded to an integer in mode RTZ"""
    target = 'fpy2.number.engine.real:RealEngine.trunc'
    params = {'self': 'RealEngine', 'x': 'Float | Fraction', 'ctx': 'Context'}
    returns = 'Float'
    properties = ['C02']

    def post(self, x, ctx, result):
        return rint_clauses(x, RoundingMode.RTZ, result)

    def raises(self, x, ctx):
        return {}


class RealEngine_roundint(Contract):
    """IEEE 754 5.9 roundToIntegralTiesToAway: the exact operand rounded to an integer in mode RNA"""
    target = 'fpy2.number.engine.real:RealEngine.roundint'
    params = {'self': 'RealEngine', 'x': 'Float | Fraction', 'ctx': 'Context'}
    returns = 'Float'
    properties = ['C02']

    def post(self, x, ctx, result):
        return rint_clauses(x, RoundingMode.RNA, result)

    def raises(self, x, ctx):
        return {}
