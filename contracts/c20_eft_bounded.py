"""
C20 part X3: the classic error-free transformations -- BOUNDED stand-in, never counted as proved.

FPy dialect (pyvc/fpydialect.py) with rnd DEFINED as round-to-nearest-even at p
significant digits with an unbounded exponent range (so no overflow / underflow of any
term), for each concrete p in `int_cases`; the operands range SYMBOLICALLY over all
p-digit significands and all exponents in [-6, 6]:  a = ma * 2^ea, |ma| < 2^p, |ea| <= 6.
One bit-vector query per clause and p, decided by exhaustive evaluation over the box (option 'bv_enum',
pyvc/bvenum.py) with the SAT solver as fall-back.  Bound: p <= 5, |e| <= 6.
Other rounding modes, odd precisions for every function: contracts/c20x_eft_modes.py.
"""
from speclib import *
from spec.c20 import *


class eft_fast_2sum(Contract):
    target = 'fpy2.libraries.eft:fast_2sum'
    params = {'ma': 'int', 'ea': 'int', 'mb': 'int', 'eb': 'int', 'p': 'int', 'ctx': 'FpyCtx'}
    returns = 'tuple[Fraction, Fraction]'
    properties = ['C20']
    split = ['p']
    options = {'dialect': 'fpy', 'fpy_rnd': 'rne', 'bounded': 6, 'bv_enum': True, 'bounded_try_ms': 150000, 'bounded_ms': 60000,
               'int_cases': {'p': [2, 3, 4, 5]}, 'fpy_operands': {'a': ('ma', 'ea'), 'b': ('mb', 'eb')}}
    note = 'BOUNDED: RNE at p digits, p in {2,3,4,5}, all p-digit significands, exponents in [-6,6]; precondition |a| >= |b|'

    def pre(ma, ea, mb, eb, p, ctx):
        a = fpy_operand(ma, ea)
        b = fpy_operand(mb, eb)
        return {'ma': -pow2(p) < ma and ma < pow2(p), 'ea': -6 <= ea and ea <= 6,
                'mb': -pow2(p) < mb and mb < pow2(p), 'eb': -6 <= eb and eb <= 6,
                'ordered': abs(a) >= abs(b)}

    def post(ma, ea, mb, eb, p, ctx, result):
        a = fpy_operand(ma, ea)
        b = fpy_operand(mb, eb)
        s, t = fpy_val(result)
        return {'s_rounded_sum': s == fpy_rnd(ctx, a + b), 'exact': s + t == a + b}

    def raises(ma, ea, mb, eb, p, ctx):
        return {}


class eft_classic_2sum(Contract):
    target = 'fpy2.libraries.eft:classic_2sum'
    params = {'ma': 'int', 'ea': 'int', 'mb': 'int', 'eb': 'int', 'p': 'int', 'ctx': 'FpyCtx'}
    returns = 'tuple[Fraction, Fraction]'
    properties = ['C20']
    split = ['p']
    options = {'dialect': 'fpy', 'fpy_rnd': 'rne', 'bounded': 6, 'bv_enum': True, 'bounded_try_ms': 150000, 'bounded_ms': 60000,
               'int_cases': {'p': [2, 3, 4, 5]}, 'fpy_operands': {'a': ('ma', 'ea'), 'b': ('mb', 'eb')}}
    note = 'BOUNDED: RNE at p digits, p in {2,3,4,5}, all p-digit significands, exponents in [-6,6]; no ordering precondition'

    def pre(ma, ea, mb, eb, p, ctx):
        return {'ma': -pow2(p) < ma and ma < pow2(p), 'ea': -6 <= ea and ea <= 6,
                'mb': -pow2(p) < mb and mb < pow2(p), 'eb': -6 <= eb and eb <= 6}

    def post(ma, ea, mb, eb, p, ctx, result):
        a = fpy_operand(ma, ea)
        b = fpy_operand(mb, eb)
        s, t = fpy_val(result)
        return {'s_rounded_sum': s == fpy_rnd(ctx, a + b), 'exact': s + t == a + b}

    def raises(ma, ea, mb, eb, p, ctx):
        return {}


class eft_priest_2sum(Contract):
    target = 'fpy2.libraries.eft:priest_2sum'
    params = {'ma': 'int', 'ea': 'int', 'mb': 'int', 'eb': 'int', 'p': 'int', 'ctx': 'FpyCtx'}
    returns = 'tuple[Fraction, Fraction]'
    properties = ['C20']
    split = ['p']
    options = {'dialect': 'fpy', 'fpy_rnd': 'rne', 'bounded': 6, 'bv_enum': True, 'bounded_try_ms': 150000, 'bounded_ms': 60000,
               'int_cases': {'p': [2, 3, 4, 5]}, 'fpy_operands': {'a': ('ma', 'ea'), 'b': ('mb', 'eb')}}
    note = ('BOUNDED: RNE at p digits, p in {2,3,4,5}, all p-digit significands, '
            'exponents in [-6,6]; the first result is only claimed to be faithful, so only the exact-sum clause is stated')

    def pre(ma, ea, mb, eb, p, ctx):
        return {'ma': -pow2(p) < ma and ma < pow2(p), 'ea': -6 <= ea and ea <= 6,
                'mb': -pow2(p) < mb and mb < pow2(p), 'eb': -6 <= eb and eb <= 6}

    def post(ma, ea, mb, eb, p, ctx, result):
        a = fpy_operand(ma, ea)
        b = fpy_operand(mb, eb)
        s, t = fpy_val(result)
        # under round-to-nearest the faithful first result is the rounded sum itself (the fall-back (a, b) is never taken)
        return {'s_rounded_sum': s == fpy_rnd(ctx, a + b), 'exact': s + t == a + b}

    def raises(ma, ea, mb, eb, p, ctx):
        return {}


class eft_veltkamp_split(Contract):
    target = 'fpy2.libraries.eft:veltkamp_split'
    params = {'mx': 'int', 'ex': 'int', 's': 'int', 'p': 'int', 'ctx': 'FpyCtx'}
    returns = 'tuple[Fraction, Fraction]'
    properties = ['C20']
    split = ['p', 's']
    options = {'dialect': 'fpy', 'fpy_rnd': 'rne', 'bounded': 6, 'bv_enum': True, 'bounded_try_ms': 150000, 'bounded_ms': 60000,
               'int_cases': {'p': [3, 4, 5], 's': [1, 2]}, 'fpy_operands': {'x': ('mx', 'ex')}}
    note = ('BOUNDED: RNE at p digits, p in {3,4,5}, split position s in {1,2} with 1 <= s <= p - 1 '
            '(enough precision: the constant 2^s + 1 must be representable), exponents in [-6,6]')

    def pre(mx, ex, s, p, ctx):
        return {'mx': -pow2(p) < mx and mx < pow2(p), 'ex': -6 <= ex and ex <= 6, 's_range': 1 <= s and s <= p - 1}

    def post(mx, ex, s, p, ctx, result):
        x = fpy_operand(mx, ex)
        hi, lo = fpy_val(result)
        return {
            'exact': hi + lo == x,
            # the low part is at most half a unit of the (p - s)-digit high part: |lo| * 2^(p-s) <= |hi| (hi != 0)
            'lo_small': abs(lo) * pow2(p - s) <= abs(hi) * 1 or x == 0,
            # Veltkamp: the high part fits p - s digits, the low part s digits
            'hi_fits': hi == fpy_rne(hi, p - s),
            'lo_fits': lo == fpy_rne(lo, s),
            # ... and the high part is a nearest (p - s)-digit number to x (any tie-breaking)
            'hi_nearest': abs(hi - x) == abs(fpy_rne(x, p - s) - x),
        }

    def raises(mx, ex, s, p, ctx):
        return {}


class eft_fast_2mul(Contract):
    target = 'fpy2.libraries.eft:fast_2mul'
    params = {'ma': 'int', 'ea': 'int', 'mb': 'int', 'eb': 'int', 'p': 'int', 'ctx': 'FpyCtx'}
    returns = 'tuple[Fraction, Fraction]'
    properties = ['C20']
    split = ['p']
    options = {'dialect': 'fpy', 'fpy_rnd': 'rne', 'bounded': 6, 'bv_enum': True, 'bounded_try_ms': 150000, 'bounded_ms': 60000,
               'int_cases': {'p': [2, 3, 4, 5]}, 'fpy_operands': {'a': ('ma', 'ea'), 'b': ('mb', 'eb')}}
    note = 'BOUNDED: RNE at p digits, p in {2,3,4,5}, all p-digit significands, exponents in [-6,6]; fma available'

    def pre(ma, ea, mb, eb, p, ctx):
        return {'ma': -pow2(p) < ma and ma < pow2(p), 'ea': -6 <= ea and ea <= 6,
                'mb': -pow2(p) < mb and mb < pow2(p), 'eb': -6 <= eb and eb <= 6}

    def post(ma, ea, mb, eb, p, ctx, result):
        a = fpy_operand(ma, ea)
        b = fpy_operand(mb, eb)
        s, t = fpy_val(result)
        return {'s_rounded_product': s == fpy_rnd(ctx, a * b), 'exact': s + t == a * b}

    def raises(ma, ea, mb, eb, p, ctx):
        return {}


class eft_classic_2mul(Contract):
    target = 'fpy2.libraries.eft:classic_2mul'
    params = {'ma': 'int', 'ea': 'int', 'mb': 'int', 'eb': 'int', 'p': 'int', 'ctx': 'FpyCtx'}
    returns = 'tuple[Fraction, Fraction]'
    properties = ['C20']
    split = ['p']
    options = {'dialect': 'fpy', 'fpy_rnd': 'rne', 'bounded': 6, 'bv_enum': True, 'bounded_try_ms': 150000, 'bounded_ms': 60000,
               'int_cases': {'p': [4]}, 'fpy_operands': {'a': ('ma', 'ea'), 'b': ('mb', 'eb')}}
    note = 'BOUNDED: RNE at p = 4 digits (even precision, Dekker), all p-digit significands, exponents in [-6,6]'

    def pre(ma, ea, mb, eb, p, ctx):
        return {'ma': -pow2(p) < ma and ma < pow2(p), 'ea': -6 <= ea and ea <= 6,
                'mb': -pow2(p) < mb and mb < pow2(p), 'eb': -6 <= eb and eb <= 6}

    def post(ma, ea, mb, eb, p, ctx, result):
        a = fpy_operand(ma, ea)
        b = fpy_operand(mb, eb)
        s, t = fpy_val(result)
        return {'s_rounded_product': s == fpy_rnd(ctx, a * b), 'exact': s + t == a * b}

    def raises(ma, ea, mb, eb, p, ctx):
        return {}


class eft_classic_2fma(Contract):
    target = 'fpy2.libraries.eft:classic_2fma'
    params = {'ma': 'int', 'ea': 'int', 'mb': 'int', 'eb': 'int', 'mc': 'int', 'ec': 'int', 'p': 'int', 'ctx': 'FpyCtx'}
    returns = 'tuple[Fraction, Fraction, Fraction]'
    properties = ['C20']
    split = ['p']
    options = {'dialect': 'fpy', 'fpy_rnd': 'rne', 'bounded': 6, 'bv_enum': True, 'bounded_try_ms': 150000, 'bounded_ms': 60000,
               'int_cases': {'p': [3]},
               'fpy_operands': {'a': ('ma', 'ea'), 'b': ('mb', 'eb'), 'c': ('mc', 'ec')}}
    note = ('BOUNDED: RNE at p = 3 digits, all p-digit significands, exponents of all three operands in [-6,6] (7.4 million '
            'points, decided by enumeration; the SAT solver did not decide this box within 330 s, and p = 4 on this box is '
            '65 million points: p in {2,3,4,5}, RNE and RNA, are covered on the box ea = eb = 0, ec in [-6,6] by '
            'contracts/c20x_eft_modes.py: eftx_classic_2fma)')

    def pre(ma, ea, mb, eb, mc, ec, p, ctx):
        return {'ma': -pow2(p) < ma and ma < pow2(p), 'ea': -6 <= ea and ea <= 6,
                'mb': -pow2(p) < mb and mb < pow2(p), 'eb': -6 <= eb and eb <= 6,
                'mc': -pow2(p) < mc and mc < pow2(p), 'ec': -6 <= ec and ec <= 6}

    def post(ma, ea, mb, eb, mc, ec, p, ctx, result):
        a = fpy_operand(ma, ea)
        b = fpy_operand(mb, eb)
        c = fpy_operand(mc, ec)
        r1, r2, r3 = fpy_val(result)
        return {'r1_rounded_fma': r1 == fpy_rnd(ctx, a * b + c), 'exact': r1 + r2 + r3 == a * b + c}

    def raises(ma, ea, mb, eb, mc, ec, p, ctx):
        return {}
