"""
C20x lemmas: exact roundings re-encode a triple (the digits are kept, trailing zeros may move into the
exponent: Context.round#post[exact_enc]); recombining two re-encoded parts of a split gives the operand.
Pure implications over integers / triples (pow2, bl uninterpreted with the axiom instances of pyvc/theory.py).
"""
from speclib import *
from spec.real import *
from spec.floats import *
from spec.c20 import *
from spec.c20x import *


class C20x_reenc_e(Lemma):
    """a re-encoding keeps the normalized exponent (exp + bit_length(c) - 1) and is nonzero"""
    params = {'ea': 'int', 'ca': 'int', 'er': 'int', 'cr': 'int'}
    properties = ['C20']

    def pre(self, ea, ca, er, cr):
        return {'ca': ca >= 1, 'cr': cr >= 0, 'er': er >= ea, 'enc': ca == cr * pow2(er - ea)}

    def post(self, ea, ca, er, cr):
        return {'nonzero': cr >= 1, 'e': er + bl(cr) == ea + bl(ca)}


class C20x_pow2_split(Lemma):
    """2^b == 2^a * 2^(b - a) for 0 <= a <= b (the schema PP.split of pyvc/theory.py, stated once so that lemmas that
    switch the product-splitting instances off can name the one instance they need)"""
    params = {'a': 'int', 'b': 'int'}
    properties = ['C20']

    def pre(self, a, b):
        return {'range': 0 <= a and a <= b}

    def post(self, a, b):
        return {'split': pow2(b) == pow2(a) * pow2(b - a)}


class C20x_reenc_sum(Lemma):
    """mixed split of x = (xs, ex, cx) at digit n (ex <= n < e(x)): above = (n + 1, cx div 2^sh), below = (ex, cx mod 2^sh),
    sh = n + 1 - ex; if h re-encodes `above` and l re-encodes `below` (or is zero when below is), then h + l == x"""
    params = {'h': 'RealFloat', 'l': 'RealFloat', 'x': 'RealFloat', 'n': 'int'}
    properties = ['C20']
    options = {'theory_light': True}      # no product-splitting instances: the one that is needed is applied by name

    def pre(self, h, l, x, n):
        sh = n + 1 - x._exp
        ca = fdiv(x._c, pow2(sh))
        cb = fmod(x._c, pow2(sh))
        return {
            'mixed': x._c >= 1 and n >= x._exp,
            # RealFloat.split#post[sum], [mixed]
            'split_sum': ca * pow2(sh) + cb == x._c,
            'above_nonzero': ca >= 1,
            'h_enc': h._exp >= n + 1 and ca == h._c * pow2(h._exp - (n + 1)) and h._s == x._s,
            'l_zero': implies(cb == 0, l._c == 0),
            'l_enc': implies(cb != 0, l._exp >= x._exp and cb == l._c * pow2(l._exp - x._exp) and l._s == x._s),
        }

    def post(self, h, l, x, n):
        # 2^(h.exp - x.exp) == 2^sh * 2^(h.exp - (n + 1))
        apply_lemma('C20x_pow2_split', a=n + 1 - x._exp, b=h._exp - x._exp)
        return {'sum': sum2_eq(h, l, x)}
