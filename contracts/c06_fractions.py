from speclib import *
from spec.c06 import *


class digits_to_fraction_C(Contract):
    target = 'fpy2.utils.fractions:digits_to_fraction'
    params = {'m': 'int', 'e': 'int', 'b': 'int'}
    returns = 'Fraction'
    properties = ['C06']

    def post(m, e, b, result):
        return {'value': result == digits_value(m, e, b)}

    def raises(m, e, b):
        # 0 ** negative is undefined; everything else is a number
        return {'ZeroDivisionError': b == 0 and e < 0}


class decnum_to_fraction_C(Contract):
    target = 'fpy2.utils.fractions:decnum_to_fraction'
    params = {'s': 'numstr'}
    returns = 'Fraction'
    properties = ['C06']
    note = ('s ranges over all strings via the TRUSTED decomposition of re.fullmatch for the pinned decimal pattern '
            '(pyvc/strings.py T1), int() on digit strings (T2); surrounding whitespace not modelled (T3)')

    def post(s, result):
        return {'denotes': result == den10(s)}

    def raises(s):
        # every spelling of the grammar is a number; everything else is rejected
        return {'ValueError': not dec_ok(s)}


class hexnum_to_fraction_C(Contract):
    target = 'fpy2.utils.fractions:hexnum_to_fraction'
    params = {'s': 'numstr'}
    returns = 'Fraction'
    properties = ['C06']
    note = ('s ranges over all strings via the TRUSTED decomposition of re.fullmatch for the pinned hexadecimal pattern '
            '(pyvc/strings.py T1), int() on digit strings (T2); surrounding whitespace not modelled (T3)')

    def post(s, result):
        return {'denotes': result == den16(s)}

    def raises(s):
        return {'ValueError': not hex_ok(s)}


class is_dyadic_C(Contract):
    target = 'fpy2.utils.fractions:is_dyadic'
    params = {'x': 'Fraction | int'}
    returns = 'bool'
    properties = ['C06']
    note = ('a symbolic Fraction is modelled as n/d with d >= 1; that d is in lowest terms is not modelled '
            '(both the code and the spec read the same d); k & (k-1) uses law CL (pyvc/interp.py bitand)')

    def post(x, result):
        # dyadic  <=>  the (lowest-terms) denominator is a power of two
        return {'dyadic': result == is_pow2(frac_den(x))}

    def raises(x):
        return {}
