"""
C14 (abstract arithmetic part): soundness of AbstractFormat's operators w.r.t. the membership
predicate `mem` of spec/c14.py.

Each lemma runs the REAL method from /repo on symbolic formats inside `post` (e.g. `R = -A`) and
states that the exact result of the operation on arbitrary members is a member of R, and that R
is again well-formed.  `pre`/`post` of a Lemma take no `self`.

Field typing: `prec: int | float`, `exp: int | float`, `pos_bound/neg_bound: RealFloat | float`;
the float alternative is the documented sentinel (`overrides`), which `wf` states as a
precondition under native replay.
"""
from speclib import *
from spec.real import *
from spec.floats import *
from spec.c14 import *


class C14_neg_sound(Lemma):
    params = {'A': 'AbstractFormat', 'v': 'Float', 'g': 'int'}
    overrides = {'A.prec': 'int | PosInf', 'A.exp': 'int | NegInf',
                 'A.pos_bound': 'RealFloat | PosInf', 'A.neg_bound': 'RealFloat | NegInf'}
    properties = ['C14']

    def pre(A, v, g):
        return {'wf': wf(A), 'grid': grid_ok_fmt(A, g) and g <= v._real._exp, 'mem': mem(v, A, g)}

    def post(A, v, g):
        R = -A
        w = v_neg(v)
        out = wf_clauses(R, 'wf')
        out.update({
            'grid': grid_ok_fmt(R, g),
            'nan': implies(w[0], R.has_nan),
            'inf': implies(not w[0] and w[1], ite(w[2], R.has_neg_inf, R.has_pos_inf)),
            'finite': implies(not w[0] and not w[1] and w[4] != 0, mem_fin(w[2], w[3], w[4], R, g)),
            'zero': implies(not w[0] and not w[1] and w[4] == 0, mem_fin(w[2], w[3], w[4], R, g)),
        })
        return out
