"""
C14 (abstract arithmetic part): soundness of AbstractFormat's operators w.r.t. the membership
predicate `mem` of spec/c14.py.

Each lemma runs the REAL method from /repo on symbolic formats inside `post` (e.g. `R = -A`) and
states that the exact result of the operation on arbitrary members is a member of R, and that R
is again well-formed.  `pre`/`post` of a Lemma take no `self`.

Field typing: `prec: int | float`, `exp: int | float`, `pos_bound/neg_bound: RealFloat | float`;
the float alternative is the documented sentinel (`overrides`), which `wf` states as a
precondition under native replay.
"""
from speclib import *
from spec.real import *
from spec.floats import *
from spec.c14 import *


# ---------------------------------------------------------------------------
# order of RealFloat values on the ghost grid G = ghost('grid', 0): for any G below both exponents,
# x OP y  <=>  Z_G(x) OP Z_G(y).  (RealFloat x RealFloat; float operands are inlined from source.)

class C14h_RealFloat___gt__(Contract):
    target = 'fpy2.number.number.reals:RealFloat.__gt__'
    params = {'self': 'RealFloat', 'other': 'RealFloat'}
    returns = 'bool'
    properties = ['C14']
    # path-queries the solvers leave undecided (rescaling both sides of an inequality by 2^(e0-G)) fall back
    # to a bounded check (exponents / widths <= 10), reported as bounded
    options = {'local': 'contracts.c14', 'bounded_fallback': 10, 'bounded_ms': 30000}

    def post(self, other, result):
        G = ghost('grid', 0)
        return {'grid': case_split(self._exp <= other._exp, self._s, other._s, self._c == 0, other._c == 0)
                and implies(G <= self._exp and G <= other._exp, result == (Zr(self, G) > Zr(other, G)))}

    def raises(self, other):
        return {}


class C14h_RealFloat___lt__(Contract):
    target = 'fpy2.number.number.reals:RealFloat.__lt__'
    params = {'self': 'RealFloat', 'other': 'RealFloat'}
    returns = 'bool'
    properties = ['C14']
    # path-queries the solvers leave undecided (rescaling both sides of an inequality by 2^(e0-G)) fall back
    # to a bounded check (exponents / widths <= 10), reported as bounded
    options = {'local': 'contracts.c14', 'bounded_fallback': 10, 'bounded_ms': 30000}

    def post(self, other, result):
        G = ghost('grid', 0)
        return {'grid': case_split(self._exp <= other._exp, self._s, other._s, self._c == 0, other._c == 0)
                and implies(G <= self._exp and G <= other._exp, result == (Zr(self, G) < Zr(other, G)))}

    def raises(self, other):
        return {}


class C14h_RealFloat___ge__(Contract):
    target = 'fpy2.number.number.reals:RealFloat.__ge__'
    params = {'self': 'RealFloat', 'other': 'RealFloat'}
    returns = 'bool'
    properties = ['C14']
    # path-queries the solvers leave undecided (rescaling both sides of an inequality by 2^(e0-G)) fall back
    # to a bounded check (exponents / widths <= 10), reported as bounded
    options = {'local': 'contracts.c14', 'bounded_fallback': 10, 'bounded_ms': 30000}

    def post(self, other, result):
        G = ghost('grid', 0)
        return {'grid': case_split(self._exp <= other._exp, self._s, other._s, self._c == 0, other._c == 0)
                and implies(G <= self._exp and G <= other._exp, result == (Zr(self, G) >= Zr(other, G)))}

    def raises(self, other):
        return {}


class C14h_RealFloat___le__(Contract):
    target = 'fpy2.number.number.reals:RealFloat.__le__'
    params = {'self': 'RealFloat', 'other': 'RealFloat'}
    returns = 'bool'
    properties = ['C14']
    # path-queries the solvers leave undecided (rescaling both sides of an inequality by 2^(e0-G)) fall back
    # to a bounded check (exponents / widths <= 10), reported as bounded
    options = {'local': 'contracts.c14', 'bounded_fallback': 10, 'bounded_ms': 30000}

    def post(self, other, result):
        G = ghost('grid', 0)
        return {'grid': case_split(self._exp <= other._exp, self._s, other._s, self._c == 0, other._c == 0)
                and implies(G <= self._exp and G <= other._exp, result == (Zr(self, G) <= Zr(other, G)))}

    def raises(self, other):
        return {}


# ---------------------------------------------------------------------------
# exact RealFloat arithmetic on the ghost grid (used for the bounds and for the members' exact sums)

class C14h_RealFloat___add__(Contract):
    target = 'fpy2.number.number.reals:RealFloat.__add__'
    params = {'self': 'RealFloat', 'other': 'RealFloat'}
    returns = 'RealFloat'
    properties = ['C14']
    options = {'local': 'contracts.c14', 'bounded_fallback': 10, 'bounded_ms': 30000}

    def post(self, other, result):
        G = ghost('grid', 0)
        sz = self._c == 0
        oz = other._c == 0
        return {
            'wf': result._c >= 0,
            'exp': result._exp == ite(sz and not oz, other._exp, ite(oz and not sz, self._exp, imin(self._exp, other._exp))),
            'grid': case_split(self._exp <= other._exp, self._s, other._s)
                    and implies(G <= self._exp and G <= other._exp, Zr(result, G) == Zr(self, G) + Zr(other, G)),
            'zero_sign': implies(sz and oz, result._s == (self._s and other._s)),
            'exact_zero': implies(result._c == 0 and not (sz and oz), not result._s),
            'nonneg': implies((sz or not self._s) and (oz or not other._s), result._c == 0 or not result._s),
            'nonpos': implies((sz or self._s) and (oz or other._s), result._c == 0 or result._s),
            'fresh': not same_obj(result, self) and not same_obj(result, other),
        }

    def raises(self, other):
        return {}


class C14h_RealFloat___neg__(Contract):
    target = 'fpy2.number.number.reals:RealFloat.__neg__'
    params = {'self': 'RealFloat'}
    returns = 'RealFloat'
    properties = ['C14']
    options = {'local': 'contracts.c14'}

    def post(self, result):
        return {'s': result._s == (not self._s), 'exp': result._exp == self._exp, 'c': result._c == self._c,
                'fresh': not same_obj(result, self)}

    def raises(self):
        return {}


class C14h_RealFloat___abs__(Contract):
    target = 'fpy2.number.number.reals:RealFloat.__abs__'
    params = {'self': 'RealFloat'}
    returns = 'RealFloat'
    properties = ['C14']
    options = {'local': 'contracts.c14'}

    def post(self, result):
        return {'s': result._s == False, 'exp': result._exp == self._exp, 'c': result._c == self._c,
                'fresh': not same_obj(result, self)}

    def raises(self):
        return {}


class RealFloat_normalize_n(Contract):
    """normalize(n=...) only (p is None): same value, exponent n + 1; raises when digits would be shifted off"""
    target = 'fpy2.number.number.reals:RealFloat.normalize'
    params = {'self': 'RealFloat', 'p': 'None', 'n': 'int'}
    returns = 'RealFloat'
    properties = ['C14']

    def post(self, p, n, result):
        sh = self._exp - (n + 1)
        return {
            's': result._s == self._s,
            'exp': result._exp == n + 1,
            'c_up': implies(sh >= 0, result._c == self._c * pow2(sh)),
            'c_down': implies(sh < 0, result._c * pow2(-sh) == self._c),
            'wf': result._c >= 0,
        }

    def raises(self, p, n):
        sh = self._exp - (n + 1)
        return {'ValueError': (fmod(self._c, pow2(-sh)) != 0) if sh < 0 else False}


class C14_neg_sound(Lemma):
    params = {'A': 'AbstractFormat', 'v': 'Float'}
    overrides = {'A.prec': 'int | PosInf', 'A.exp': 'int | NegInf',
                 'A.pos_bound': 'RealFloat | PosInf', 'A.neg_bound': 'RealFloat | NegInf'}
    properties = ['C14']
    options = {'light_first': True, 'theory_light': True}

    def pre(A, v):
        g = GRID()
        return {'wf': wf(A), 'grid': grid_ok_fmt(A, g) and g <= v._real._exp, 'mem': mem(v, A, g)}

    def post(A, v):
        g = GRID()
        R = -A
        w = v_neg(v)
        out = wf_clauses(R, 'wf')
        out.update({
            'grid': grid_ok_fmt(R, g),
            'nan': implies(w[0], R.has_nan),
            'inf': implies(not w[0] and w[1], ite(w[2], R.has_neg_inf, R.has_pos_inf)),
            'finite': implies(not w[0] and not w[1] and w[4] != 0, mem_fin(w[2], w[3], w[4], R, g)),
            'zero': implies(not w[0] and not w[1] and w[4] == 0, mem_fin(w[2], w[3], w[4], R, g)),
        })
        return out


class C14_abs_sound(Lemma):
    params = {'A': 'AbstractFormat', 'v': 'Float'}
    overrides = {'A.prec': 'int | PosInf', 'A.exp': 'int | NegInf',
                 'A.pos_bound': 'RealFloat | PosInf', 'A.neg_bound': 'RealFloat | NegInf'}
    properties = ['C14']
    options = {'light_first': True, 'theory_light': True}

    def pre(A, v):
        g = GRID()
        # g <= 0: the grid must also lie below the exponent of the zero bound that __abs__ creates
        return {'wf': wf(A), 'grid': grid_ok_fmt(A, g) and g <= v._real._exp and g <= 0, 'mem': mem(v, A, g)}

    def post(A, v):
        g = GRID()
        R = abs(A)
        w = v_abs(v)
        out = wf_clauses(R, 'wf')
        out.update({
            'grid': grid_ok_fmt(R, g),
            'nan': implies(w[0], R.has_nan),
            'inf': implies(not w[0] and w[1], ite(w[2], R.has_neg_inf, R.has_pos_inf)),
            'finite': implies(not w[0] and not w[1] and w[4] != 0, mem_fin(w[2], w[3], w[4], R, g)),
            'zero': implies(not w[0] and not w[1] and w[4] == 0, mem_fin(w[2], w[3], w[4], R, g)),
        })
        return out


class C14_pos_sound(Lemma):
    params = {'A': 'AbstractFormat', 'v': 'Float'}
    overrides = {'A.prec': 'int | PosInf', 'A.exp': 'int | NegInf',
                 'A.pos_bound': 'RealFloat | PosInf', 'A.neg_bound': 'RealFloat | NegInf'}
    properties = ['C14']
    options = {'light_first': True, 'theory_light': True}

    def pre(A, v):
        g = GRID()
        return {'wf': wf(A), 'grid': grid_ok_fmt(A, g) and g <= v._real._exp, 'mem': mem(v, A, g)}

    def post(A, v):
        g = GRID()
        R = +A
        w = v_pos(v)
        out = wf_clauses(R, 'wf')
        out.update({
            'grid': grid_ok_fmt(R, g),
            'mem': mem_val(w[0], w[1], w[2], w[3], w[4], R, g),
        })
        return out


class C14_or_special(Lemma):
    """union: wf is preserved; NaN / infinities / signed zeros of either operand are members"""
    params = {'A': 'AbstractFormat', 'B': 'AbstractFormat', 'v': 'Float'}
    overrides = {'A.prec': 'int | PosInf', 'A.exp': 'int | NegInf',
                 'A.pos_bound': 'RealFloat | PosInf', 'A.neg_bound': 'RealFloat | NegInf',
                 'B.prec': 'int | PosInf', 'B.exp': 'int | NegInf',
                 'B.pos_bound': 'RealFloat | PosInf', 'B.neg_bound': 'RealFloat | NegInf'}
    split = ['A.prec', 'A.exp', 'A.pos_bound', 'A.neg_bound']
    properties = ['C14']
    options = {'light_first': True, 'theory_light': True}

    def pre(A, B, v):
        return {'wfA': wf(A), 'wfB': wf(B), 'mem': mem_sp_v(v, A) or mem_sp_v(v, B)}

    def post(A, B, v):
        R = A | B
        out = wf_clauses(R, 'wf')
        out.update({'special': mem_sp_v(v, R)})
        return out


class C14_or_finite_left(Lemma):
    """union: a finite nonzero member of the left operand is a member"""
    params = {'A': 'AbstractFormat', 'B': 'AbstractFormat', 'v': 'Float'}
    overrides = {'A.prec': 'int | PosInf', 'A.exp': 'int | NegInf',
                 'A.pos_bound': 'RealFloat | PosInf', 'A.neg_bound': 'RealFloat | NegInf',
                 'B.prec': 'int | PosInf', 'B.exp': 'int | NegInf',
                 'B.pos_bound': 'RealFloat | PosInf', 'B.neg_bound': 'RealFloat | NegInf'}
    split = ['A.prec', 'A.exp', 'A.pos_bound', 'A.neg_bound']
    properties = ['C14']
    options = {'light_first': True, 'theory_light': True}

    def pre(A, B, v):
        g = GRID()
        out = {'wfA': wf(A), 'wfB': wf(B),
               'grid': grid_ok_fmt(A, g) and grid_ok_fmt(B, g) and g <= v._real._exp}
        out.update(mem_nz_clauses(v, A, g, 'mem'))
        return out

    def post(A, B, v):
        g = GRID()
        R = A | B
        r = v._real
        return {'grid': grid_ok_fmt(R, g), 'exp': exp_fits(r._exp, R), 'prec': prec_fits(r._c, R),
                'le_pos': le_pos(r._s, r._exp, r._c, R, g), 'ge_neg': ge_neg(r._s, r._exp, r._c, R, g)}


class C14_or_finite_right(Lemma):
    """union: a finite nonzero member of the right operand is a member"""
    params = {'A': 'AbstractFormat', 'B': 'AbstractFormat', 'v': 'Float'}
    overrides = {'A.prec': 'int | PosInf', 'A.exp': 'int | NegInf',
                 'A.pos_bound': 'RealFloat | PosInf', 'A.neg_bound': 'RealFloat | NegInf',
                 'B.prec': 'int | PosInf', 'B.exp': 'int | NegInf',
                 'B.pos_bound': 'RealFloat | PosInf', 'B.neg_bound': 'RealFloat | NegInf'}
    split = ['A.prec', 'A.exp', 'A.pos_bound', 'A.neg_bound']
    properties = ['C14']
    options = {'light_first': True, 'theory_light': True}

    def pre(A, B, v):
        g = GRID()
        out = {'wfA': wf(A), 'wfB': wf(B),
               'grid': grid_ok_fmt(A, g) and grid_ok_fmt(B, g) and g <= v._real._exp}
        out.update(mem_nz_clauses(v, B, g, 'mem'))
        return out

    def post(A, B, v):
        g = GRID()
        R = A | B
        r = v._real
        return {'grid': grid_ok_fmt(R, g), 'exp': exp_fits(r._exp, R), 'prec': prec_fits(r._c, R),
                'le_pos': le_pos(r._s, r._exp, r._c, R, g), 'ge_neg': ge_neg(r._s, r._exp, r._c, R, g)}


class C14_and_sound(Lemma):
    """intersection: a value that is a member of both operands is a member (G2)"""
    params = {'A': 'AbstractFormat', 'B': 'AbstractFormat', 'v': 'Float'}
    overrides = {'A.prec': 'int | PosInf', 'A.exp': 'int | NegInf',
                 'A.pos_bound': 'RealFloat | PosInf', 'A.neg_bound': 'RealFloat | NegInf',
                 'B.prec': 'int | PosInf', 'B.exp': 'int | NegInf',
                 'B.pos_bound': 'RealFloat | PosInf', 'B.neg_bound': 'RealFloat | NegInf'}
    split = ['A.prec', 'A.exp', 'A.pos_bound', 'A.neg_bound']
    properties = ['C14']
    options = {'light_first': True, 'theory_light': True}

    def pre(A, B, v):
        g = GRID()
        return {'wfA': wf(A), 'wfB': wf(B),
                'grid': grid_ok_fmt(A, g) and grid_ok_fmt(B, g) and g <= v._real._exp,
                'memA': mem(v, A, g), 'memB': mem(v, B, g)}

    def post(A, B, v):
        g = GRID()
        R = A & B
        r = v._real
        out = wf_clauses(R, 'wf')
        out.update({
            'grid': grid_ok_fmt(R, g),
            'special': mem_sp_v(v, R),
            'exp': implies(nz(v), exp_fits(r._exp, R)), 'prec': implies(nz(v), prec_fits(r._c, R)),
            'le_pos': implies(nz(v), le_pos(r._s, r._exp, r._c, R, g)),
            'ge_neg': implies(nz(v), ge_neg(r._s, r._exp, r._c, R, g)),
        })
        return out


class C14_le_sound(Lemma):
    """
    containment (G3): A <= B (AbstractFormat.__le__ / _is_contained_in returns True) implies every member
    of A is a member of B.  Witness for the precision escape (A.prec > B.prec but A's range inside B's
    subnormal region): either the given representation, or -- when c is exactly a power of two with one
    bit too many -- the representation (1, exp + bl(c) - 1).
    """
    params = {'A': 'AbstractFormat', 'B': 'AbstractFormat', 'v': 'Float'}
    overrides = {'A.prec': 'int | PosInf', 'A.exp': 'int | NegInf',
                 'A.pos_bound': 'RealFloat | PosInf', 'A.neg_bound': 'RealFloat | NegInf',
                 'B.prec': 'int | PosInf', 'B.exp': 'int | NegInf',
                 'B.pos_bound': 'RealFloat | PosInf', 'B.neg_bound': 'RealFloat | NegInf'}
    split = ['A.prec', 'A.exp', 'A.pos_bound', 'A.neg_bound']
    properties = ['C14']
    options = {'light_first': True, 'theory_light': True}

    def pre(A, B, v):
        g = GRID()
        return {'wfA': wf(A), 'wfB': wf(B),
                'grid': grid_ok_fmt(A, g) and grid_ok_fmt(B, g) and g <= v._real._exp,
                'mem': mem(v, A, g)}

    def post(A, B, v):
        g = GRID()
        r = v._real
        c = r._c
        le = A <= B          # the real AbstractFormat.__le__ -> _is_contained_in
        return {
            'special': implies(le, mem_sp_v(v, B)),
            'exp': implies(le and nz(v), exp_fits(r._exp, B)),
            'prec': implies(le and nz(v), prec_fits(c, B) or (c == pow2(bl(c) - 1) and prec_fits(1, B))),
            'le_pos': implies(le and nz(v), le_pos(r._s, r._exp, c, B, g)),
            'ge_neg': implies(le and nz(v), ge_neg(r._s, r._exp, c, B, g)),
        }


class C14_add_special(Lemma):
    """sum: result format is well-formed; NaN / infinities / -0 of the exact sum are members (IEEE 754 rules)"""
    params = {'A': 'AbstractFormat', 'B': 'AbstractFormat', 'a': 'Float', 'b': 'Float'}
    overrides = {'A.prec': 'int | PosInf', 'A.exp': 'int | NegInf',
                 'A.pos_bound': 'RealFloat | PosInf', 'A.neg_bound': 'RealFloat | NegInf',
                 'B.prec': 'int | PosInf', 'B.exp': 'int | NegInf',
                 'B.pos_bound': 'RealFloat | PosInf', 'B.neg_bound': 'RealFloat | NegInf'}
    split = ['A.prec', 'A.exp', 'A.pos_bound', 'A.neg_bound']
    properties = ['C14']
    no_use = ['RealFloat___add__', 'RealFloat___radd__', 'RealFloat___rsub__', 'RealFloat___neg__']      # float operands (unbounded bounds) are inlined, not taken from the C05 contracts (symbolic float results)
    options = {'light_first': True, 'theory_light': True}

    def pre(A, B, a, b):
        return {'wfA': wf(A), 'wfB': wf(B), 'repA': bounds_rep(A), 'repB': bounds_rep(B),
                'memA': mem_sp_v(a, A), 'memB': mem_sp_v(b, B)}

    def post(A, B, a, b):
        R = A + B
        out = wf_clauses(R, 'wf')
        out.update({
            'rep': bounds_rep(R),
            'nan': implies(add_nan(a, b, False), R.has_nan),
            'inf': implies(add_inf(a, b, False), ite(add_inf_sign(a, b, False), R.has_neg_inf, R.has_pos_inf)),
            'neg_zero': implies(add_neg_zero(a, b, False), R.has_neg_zero),
        })
        return out


class C14_add_finite(Lemma):
    """sum: the exact sum of two finite members (computed by RealFloat.__add__, exact by its grid contract)
    satisfies the quantum, precision and bound constraints of A + B (G1)"""
    params = {'A': 'AbstractFormat', 'B': 'AbstractFormat', 'a': 'Float', 'b': 'Float'}
    overrides = {'A.prec': 'int | PosInf', 'A.exp': 'int | NegInf',
                 'A.pos_bound': 'RealFloat | PosInf', 'A.neg_bound': 'RealFloat | NegInf',
                 'B.prec': 'int | PosInf', 'B.exp': 'int | NegInf',
                 'B.pos_bound': 'RealFloat | PosInf', 'B.neg_bound': 'RealFloat | NegInf'}
    split = ['A.prec', 'A.exp', 'A.pos_bound', 'A.neg_bound']
    properties = ['C14']
    options = {'light_first': True, 'theory_light': True}

    def pre(A, B, a, b):
        g = GRID()
        out = {'wfA': wf(A), 'wfB': wf(B), 'repA': bounds_rep(A), 'repB': bounds_rep(B),
               'grid': grid_ok_fmt(A, g) and grid_ok_fmt(B, g)}
        out.update(fin_member_clauses(a, A, g, 'a'))
        out.update(fin_member_clauses(b, B, g, 'b'))
        return out

    def post(A, B, a, b):
        g = GRID()
        R = A + B
        s = a._real + b._real
        return {
            'grid': grid_ok_fmt(R, g) and g <= s._exp,
            'exp': implies(s._c != 0, exp_fits(s._exp, R)),
            'le_pos': le_pos(s._s, s._exp, s._c, R, g),
            'ge_neg': ge_neg(s._s, s._exp, s._c, R, g),
        }


class C14_sub_special(Lemma):
    """difference: result format is well-formed; NaN / infinities / -0 of the exact difference are members (IEEE 754 rules)"""
    params = {'A': 'AbstractFormat', 'B': 'AbstractFormat', 'a': 'Float', 'b': 'Float'}
    overrides = {'A.prec': 'int | PosInf', 'A.exp': 'int | NegInf',
                 'A.pos_bound': 'RealFloat | PosInf', 'A.neg_bound': 'RealFloat | NegInf',
                 'B.prec': 'int | PosInf', 'B.exp': 'int | NegInf',
                 'B.pos_bound': 'RealFloat | PosInf', 'B.neg_bound': 'RealFloat | NegInf'}
    split = ['A.prec', 'A.exp', 'A.pos_bound', 'A.neg_bound']
    properties = ['C14']
    no_use = ['RealFloat.__sub__', 'RealFloat___add__', 'RealFloat___radd__', 'RealFloat___rsub__', 'RealFloat___neg__']      # x - y inlined as x + (-y): the C05 contract of __sub__ (added later) does not give the result exponent
    options = {'light_first': True, 'theory_light': True}

    def pre(A, B, a, b):
        return {'wfA': wf(A), 'wfB': wf(B), 'repA': bounds_rep(A), 'repB': bounds_rep(B),
                'memA': mem_sp_v(a, A), 'memB': mem_sp_v(b, B)}

    def post(A, B, a, b):
        R = A - B
        out = wf_clauses(R, 'wf')
        out.update({
            'rep': bounds_rep(R),
            'nan': implies(add_nan(a, b, True), R.has_nan),
            'inf': implies(add_inf(a, b, True), ite(add_inf_sign(a, b, True), R.has_neg_inf, R.has_pos_inf)),
            'neg_zero': implies(add_neg_zero(a, b, True), R.has_neg_zero),
        })
        return out


class C14_sub_finite(Lemma):
    """difference: the exact difference of two finite members (computed by RealFloat.__sub__ = self + (-other), exact by its grid contract)
    satisfies the quantum, precision and bound constraints of A - B (G1)"""
    params = {'A': 'AbstractFormat', 'B': 'AbstractFormat', 'a': 'Float', 'b': 'Float'}
    overrides = {'A.prec': 'int | PosInf', 'A.exp': 'int | NegInf',
                 'A.pos_bound': 'RealFloat | PosInf', 'A.neg_bound': 'RealFloat | NegInf',
                 'B.prec': 'int | PosInf', 'B.exp': 'int | NegInf',
                 'B.pos_bound': 'RealFloat | PosInf', 'B.neg_bound': 'RealFloat | NegInf'}
    split = ['A.prec', 'A.exp', 'A.pos_bound', 'A.neg_bound']
    properties = ['C14']
    no_use = ['RealFloat.__sub__']      # x - y inlined as x + (-y): the C05 contract of __sub__ (added later) does not give the result exponent
    options = {'light_first': True, 'theory_light': True}

    def pre(A, B, a, b):
        g = GRID()
        out = {'wfA': wf(A), 'wfB': wf(B), 'repA': bounds_rep(A), 'repB': bounds_rep(B),
               'grid': grid_ok_fmt(A, g) and grid_ok_fmt(B, g)}
        out.update(fin_member_clauses(a, A, g, 'a'))
        out.update(fin_member_clauses(b, B, g, 'b'))
        return out

    def post(A, B, a, b):
        g = GRID()
        R = A - B
        s = a._real - b._real
        return {
            'grid': grid_ok_fmt(R, g) and g <= s._exp,
            'exp': implies(s._c != 0, exp_fits(s._exp, R)),
            'le_pos': le_pos(s._s, s._exp, s._c, R, g),
            'ge_neg': ge_neg(s._s, s._exp, s._c, R, g),
        }


class C14_mul_special(Lemma):
    """product: result format is well-formed; NaN / infinities / -0 of the exact product are members"""
    params = {'A': 'AbstractFormat', 'B': 'AbstractFormat', 'a': 'Float', 'b': 'Float'}
    overrides = {'A.prec': 'int | PosInf', 'A.exp': 'int | NegInf',
                 'A.pos_bound': 'RealFloat | PosInf', 'A.neg_bound': 'RealFloat | NegInf',
                 'B.prec': 'int | PosInf', 'B.exp': 'int | NegInf',
                 'B.pos_bound': 'RealFloat | PosInf', 'B.neg_bound': 'RealFloat | NegInf'}
    split = ['A.prec', 'A.exp', 'A.pos_bound', 'A.neg_bound']
    # work in progress: the A.prec = inf cases still stop on an OverflowError branch of `p_self + p_other`
    # (int + float('inf')) that the feasibility check cannot rule out; not part of ./check C14 yet
    properties = ['C14-wip']
    options = {'light_first': True, 'theory_light': True}

    def pre(A, B, a, b):
        return {'wfA': wf(A), 'wfB': wf(B), 'repA': bounds_rep(A), 'repB': bounds_rep(B),
                'smallA': small(A), 'smallB': small(B),
                'quantumA': quantum_if_bounded(A), 'quantumB': quantum_if_bounded(B),
                'memA': mem_sp_v(a, A), 'memB': mem_sp_v(b, B)}

    def post(A, B, a, b):
        R = A * B
        out = wf_clauses(R, 'wf')
        out.update({
            'nan': implies(mul_nan(a, b), R.has_nan),
            'inf': implies(mul_inf(a, b), ite(mul_sign(a, b), R.has_neg_inf, R.has_pos_inf)),
            'neg_zero': implies(mul_neg_zero(a, b), R.has_neg_zero),
        })
        return out



class C14_add_prec(Lemma):
    """add: the exact result of two finite members fits the precision of the result format.  The grid is chosen
    as the result quantum 2^min(A.exp, B.exp) (a legal grid: it lies below every exponent involved), so that the
    renormalised largest bound is the integer Z_g(max bound) and bit_length is monotone."""
    params = {'A': 'AbstractFormat', 'B': 'AbstractFormat', 'a': 'Float', 'b': 'Float'}
    overrides = {'A.prec': 'int | PosInf', 'A.exp': 'int | NegInf',
                 'A.pos_bound': 'RealFloat | PosInf', 'A.neg_bound': 'RealFloat | NegInf',
                 'B.prec': 'int | PosInf', 'B.exp': 'int | NegInf',
                 'B.pos_bound': 'RealFloat | PosInf', 'B.neg_bound': 'RealFloat | NegInf'}
    split = ['A.prec', 'A.exp', 'A.pos_bound', 'A.neg_bound']
    properties = ['C14']
    # superseded by C14x_add_prec / C14x_sub_prec (contracts/c14x_prec.py: complete, no bounded fallback, ~2 s per case);
    # this formulation needs > 300 s per case and runs in the thorough tier only
    options = {'light_first': True, 'bounded_fallback': 8, 'bounded_ms': 30000, 'symbolic_tier': 'thorough'}

    def pre(A, B, a, b):
        g = GRID()
        out = {'wfA': wf(A), 'wfB': wf(B), 'repA': bounds_rep(A), 'repB': bounds_rep(B),
               'grid': grid_ok_fmt(A, g) and grid_ok_fmt(B, g),
               'grid_is_quantum': True if (is_fl(A.exp) or is_fl(B.exp)) else g == imin(A.exp, B.exp)}
        out.update(fin_member_clauses(a, A, g, 'a'))
        out.update(fin_member_clauses(b, B, g, 'b'))
        return out

    def post(A, B, a, b):
        R = A + B
        s = a._real + b._real
        return {'prec': implies(s._c != 0, prec_fits(s._c, R))}



class C14_sub_prec(Lemma):
    """sub: the exact result of two finite members fits the precision of the result format.  The grid is chosen
    as the result quantum 2^min(A.exp, B.exp) (a legal grid: it lies below every exponent involved), so that the
    renormalised largest bound is the integer Z_g(max bound) and bit_length is monotone."""
    params = {'A': 'AbstractFormat', 'B': 'AbstractFormat', 'a': 'Float', 'b': 'Float'}
    overrides = {'A.prec': 'int | PosInf', 'A.exp': 'int | NegInf',
                 'A.pos_bound': 'RealFloat | PosInf', 'A.neg_bound': 'RealFloat | NegInf',
                 'B.prec': 'int | PosInf', 'B.exp': 'int | NegInf',
                 'B.pos_bound': 'RealFloat | PosInf', 'B.neg_bound': 'RealFloat | NegInf'}
    split = ['A.prec', 'A.exp', 'A.pos_bound', 'A.neg_bound']
    properties = ['C14']
    no_use = ['RealFloat.__sub__']      # x - y inlined as x + (-y): the C05 contract of __sub__ (added later) does not give the result exponent
    # superseded by C14x_add_prec / C14x_sub_prec (contracts/c14x_prec.py: complete, no bounded fallback, ~2 s per case);
    # this formulation needs > 300 s per case and runs in the thorough tier only
    options = {'light_first': True, 'bounded_fallback': 8, 'bounded_ms': 30000, 'symbolic_tier': 'thorough'}

    def pre(A, B, a, b):
        g = GRID()
        out = {'wfA': wf(A), 'wfB': wf(B), 'repA': bounds_rep(A), 'repB': bounds_rep(B),
               'grid': grid_ok_fmt(A, g) and grid_ok_fmt(B, g),
               'grid_is_quantum': True if (is_fl(A.exp) or is_fl(B.exp)) else g == imin(A.exp, B.exp)}
        out.update(fin_member_clauses(a, A, g, 'a'))
        out.update(fin_member_clauses(b, B, g, 'b'))
        return out

    def post(A, B, a, b):
        R = A - B
        s = a._real - b._real
        return {'prec': implies(s._c != 0, prec_fits(s._c, R))}
