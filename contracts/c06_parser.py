from speclib import *
from spec.c06 import *


class Parser__parse_expr(Contract):
    target = 'fpy2.frontend.parser:Parser._parse_expr'
    params = {'self': 'Parser', 'e': 'PyOperand'}
    returns = 'Expr'
    properties = ['C06']
    trusted = True
    options = {'result_is': 'e.parsed'}
    native_stubs = {'fpy2.frontend.parser:Parser._parse_expr': 'spec.c06:stub_parse_expr'}
    note = ('the recursive call Parser._parse_expr(operand) returns SOME FPy expression; it is named by the ghost field '
            '`parsed` of the stand-in operand node, so that _parse_unaryop can be specified relative to it '
            '(no property of the returned expression is assumed)')


class Parser__parse_unaryop(Contract):
    target = 'fpy2.frontend.parser:Parser._parse_unaryop'
    params = {'self': 'Parser', 'e': 'PyUnaryOp'}
    overrides = {'e.operand.parsed.val': 'numstr'}
    returns = 'Expr'
    properties = ['C06']
    native_stubs = {'fpy2.frontend.parser:Parser._parse_expr': 'spec.c06:stub_parse_expr'}
    note = ('operators +, -, not (the `Not a valid FPy operator` error arm is not covered); the operand is any literal '
            'node or a variable; Decnum/Hexnum spellings via the trusted regex decomposition (pyvc/strings.py T1-T3)')

    def pre(self, e):
        a = e.operand.parsed
        return {'operand_wellformed': lit_ok(a)}

    def post(self, e, result):
        a = e.operand.parsed
        op = cls_name(e.op)
        r = result
        out = {}
        if op == 'PyUAdd':
            out.update({'uadd_same': same_obj(r, a)})
        if op == 'PyNot':
            out.update({'not_node': cls_name(r) == 'Not' and same_obj(r.arg, a)})
        if op == 'PyUSub':
            zero = is_lit(a) and lit_value(a) == 0
            nzint = cls_name(a) == 'Integer' and a.val != 0
            out.update({
                # -<zero literal> is a literal denoting the zero of the opposite sign
                'neg_zero_is_literal': implies(zero, is_lit(r)),
                'neg_zero_value': implies(zero, lit_value(r) == 0) if is_lit(r) else not zero,
                'neg_zero_sign': (implies(zero, lit_negzero(r) == (not lit_negzero(a)))) if (is_lit(r) and is_lit(a)) else not zero,
                # -<nonzero integer literal> is the integer literal of the negated value
                'neg_integer': implies(nzint, cls_name(r) == 'Integer') and ((r.val == -a.val) if (cls_name(r) == 'Integer' and cls_name(a) == 'Integer') else not nzint),
                # anything else stays a negation node over the operand
                'neg_other': implies(not zero and not nzint, cls_name(r) == 'Neg') and (same_obj(r.arg, a) if cls_name(r) == 'Neg' else (zero or nzint)),
            })
        return out

    def raises(self, e):
        return {}


class Parser__parse_constant_int(Contract):
    target = 'fpy2.frontend.parser:Parser._parse_constant'
    # `spelling` is a GHOST parameter: the source text of the constant.  Python hands the parser only e.value.
    params = {'self': 'Parser', 'e': 'PyIntConstant', 'spelling': 'numstr'}
    returns = 'Expr'
    properties = ['C06']
    inline = True
    note = ('integer constants: spelling = digits only (no underscores / 0x / 0o / 0b forms); precondition: e.value is the '
            'positional value of the digits (what CPython gives an integer literal); bool/str/None arms are not numerals')

    def pre(self, e, spelling):
        return parse_constant_pre(e, spelling)

    def post(self, e, spelling, result):
        return parse_constant_post(spelling, result)

    def raises(self, e, spelling):
        return {}


class Parser__parse_constant_float(Contract):
    target = 'fpy2.frontend.parser:Parser._parse_constant'
    params = {'self': 'Parser', 'e': 'PyFloatConstant', 'spelling': 'numstr'}
    returns = 'Expr'
    properties = ['C06']
    inline = True
    note = ('float constants: spellings of the decimal grammar of pyvc/strings.py with a `.` or an exponent (no underscores, '
            'no `1.`/`1.e5` forms, lower-case e); precondition: e.value is the binary64 nearest to the number written '
            '(symbolically only |x - v| <= ulp/2); str(float) is a TRUSTED model (intrinsics._float_str). '
            'EXPECTED OPEN on the current tree (F4): the parser rebuilds the literal from the rounded double; the '
            'Parser__parse_constant_w_* contracts below are concrete instances that replay natively')

    def pre(self, e, spelling):
        return parse_constant_pre(e, spelling)

    def post(self, e, spelling, result):
        return parse_constant_post(spelling, result)

    def raises(self, e, spelling):
        return {}


class Parser__parse_constant_w_1e23(Contract):
    target = 'fpy2.frontend.parser:Parser._parse_constant'
    params = {'self': 'Parser', 'e': 'PyConstant_1e23', 'spelling': "Literal['1e23']"}
    returns = 'Expr'
    properties = ['C06']
    inline = True
    note = 'concrete instance of Parser__parse_constant_float: the constant spelled 1e23'

    def pre(self, e, spelling):
        return parse_constant_pre(e, spelling)

    def post(self, e, spelling, result):
        return parse_constant_post(spelling, result)

    def raises(self, e, spelling):
        return {}


class Parser__parse_constant_w_0_1(Contract):
    target = 'fpy2.frontend.parser:Parser._parse_constant'
    params = {'self': 'Parser', 'e': 'PyConstant_0_1', 'spelling': "Literal['0.1000000000000000055511151231257827']"}
    returns = 'Expr'
    properties = ['C06']
    inline = True
    note = 'concrete instance of Parser__parse_constant_float: a 34-digit spelling whose nearest double is 0.1'

    def pre(self, e, spelling):
        return parse_constant_pre(e, spelling)

    def post(self, e, spelling, result):
        return parse_constant_post(spelling, result)

    def raises(self, e, spelling):
        return {}


class Parser__parse_constant_w_1e999(Contract):
    target = 'fpy2.frontend.parser:Parser._parse_constant'
    params = {'self': 'Parser', 'e': 'PyConstant_inf', 'spelling': "Literal['1e999']"}
    returns = 'Expr'
    properties = ['C06']
    inline = True
    note = 'concrete instance of Parser__parse_constant_float: a value above the double range (Python gives inf)'

    def pre(self, e, spelling):
        return parse_constant_pre(e, spelling)

    def post(self, e, spelling, result):
        return parse_constant_post(spelling, result)

    def raises(self, e, spelling):
        return {}


class Parser__parse_constant_w_1em999(Contract):
    target = 'fpy2.frontend.parser:Parser._parse_constant'
    params = {'self': 'Parser', 'e': 'PyConstant_tiny', 'spelling': "Literal['1e-999']"}
    returns = 'Expr'
    properties = ['C06']
    inline = True
    note = 'concrete instance of Parser__parse_constant_float: a value below the double range (Python gives 0.0)'

    def pre(self, e, spelling):
        return parse_constant_pre(e, spelling)

    def post(self, e, spelling, result):
        return parse_constant_post(spelling, result)

    def raises(self, e, spelling):
        return {}
