from speclib import *
from spec.c06 import *


class Parser__parse_expr(Contract):
    target = 'fpy2.frontend.parser:Parser._parse_expr'
    params = {'self': 'Parser', 'e': 'PyOperand'}
    returns = 'Expr'
    properties = ['C06']
    trusted = True
    options = {'result_is': 'e.parsed'}
    native_stubs = {'fpy2.frontend.parser:Parser._parse_expr': 'spec.c06:stub_parse_expr'}
    note = ('the recursive call Parser._parse_expr(operand) returns SOME FPy expression; it is named by the ghost field '
            '`parsed` of the stand-in operand node, so that _parse_unaryop can be specified relative to it '
            '(no property of the returned expression is assumed)')


class Parser__parse_unaryop(Contract):
    target = 'fpy2.frontend.parser:Parser._parse_unaryop'
    params = {'self': 'Parser', 'e': 'PyUnaryOp'}
    overrides = {'e.operand.parsed.val': 'numstr'}
    returns = 'Expr'
    properties = ['C06']
    native_stubs = {'fpy2.frontend.parser:Parser._parse_expr': 'spec.c06:stub_parse_expr'}
    note = ('operators +, -, not (the `Not a valid FPy operator` error arm is not covered); the operand is any literal '
            'node or a variable; Decnum/Hexnum spellings via the trusted regex decomposition (pyvc/strings.py T1-T3)')

    def pre(self, e):
        a = e.operand.parsed
        return {'operand_wellformed': lit_ok(a)}

    def post(self, e, result):
        a = e.operand.parsed
        op = cls_name(e.op)
        r = result
        out = {}
        if op == 'PyUAdd':
            out.update({'uadd_same': same_obj(r, a)})
        if op == 'PyNot':
            out.update({'not_node': cls_name(r) == 'Not' and same_obj(r.arg, a)})
        if op == 'PyUSub':
            zero = is_lit(a) and lit_value(a) == 0
            nzint = cls_name(a) == 'Integer' and a.val != 0
            out.update({
                # -<zero literal> is a literal denoting the zero of the opposite sign
                'neg_zero_is_literal': implies(zero, is_lit(r)),
                'neg_zero_value': implies(zero, lit_value(r) == 0) if is_lit(r) else not zero,
                'neg_zero_sign': (implies(zero, lit_negzero(r) == (not lit_negzero(a)))) if (is_lit(r) and is_lit(a)) else not zero,
                # -<nonzero integer literal> is the integer literal of the negated value
                'neg_integer': implies(nzint, cls_name(r) == 'Integer') and ((r.val == -a.val) if (cls_name(r) == 'Integer' and cls_name(a) == 'Integer') else not nzint),
                # anything else stays a negation node over the operand
                'neg_other': implies(not zero and not nzint, cls_name(r) == 'Neg') and (same_obj(r.arg, a) if cls_name(r) == 'Neg' else (zero or nzint)),
            })
        return out

    def raises(self, e):
        return {}
