from speclib import *
from spec.c06 import *


class Integer_as_rational(Contract):
    target = 'fpy2.ast.fpyast:Integer.as_rational'
    params = {'self': 'Integer'}
    returns = 'Fraction'
    properties = ['C06']

    def post(self, result):
        return {'value': result == to_real(self.val)}

    def raises(self):
        return {}


class Rational_as_rational(Contract):
    target = 'fpy2.ast.fpyast:Rational.as_rational'
    params = {'self': 'Rational'}
    returns = 'Fraction'
    properties = ['C06']

    def post(self, result):
        return {'value': result == rdiv(self.p, self.q)}

    def raises(self):
        return {'ZeroDivisionError': self.q == 0}


class Digits_as_rational(Contract):
    target = 'fpy2.ast.fpyast:Digits.as_rational'
    params = {'self': 'Digits'}
    returns = 'Fraction'
    properties = ['C06']

    def post(self, result):
        return {'value': result == digits_value(self.m, self.e, self.b)}

    def raises(self):
        return {'ZeroDivisionError': self.b == 0 and self.e < 0}


class Decnum_as_rational(Contract):
    target = 'fpy2.ast.fpyast:Decnum.as_rational'
    params = {'self': 'Decnum'}
    overrides = {'self.val': 'numstr'}
    returns = 'Fraction'
    properties = ['C06']
    note = 'self.val ranges over all strings via the trusted regex decomposition (pyvc/strings.py T1-T3)'

    def post(self, result):
        return {'denotes': result == den10(self.val)}

    def raises(self):
        return {'ValueError': not dec_ok(self.val)}


class Hexnum_as_rational(Contract):
    target = 'fpy2.ast.fpyast:Hexnum.as_rational'
    params = {'self': 'Hexnum'}
    overrides = {'self.val': 'numstr'}
    returns = 'Fraction'
    properties = ['C06']
    note = 'self.val ranges over all strings via the trusted regex decomposition (pyvc/strings.py T1-T3)'

    def post(self, result):
        return {'denotes': result == den16(self.val)}

    def raises(self):
        return {'ValueError': not hex_ok(self.val)}


class Decnum_as_real(Contract):
    target = 'fpy2.ast.fpyast:Decnum.as_real'
    params = {'self': 'Decnum'}
    overrides = {'self.val': 'numstr'}
    returns = 'Fraction | Float'
    properties = ['C06']
    note = 'self.val ranges over all strings via the trusted regex decomposition (pyvc/strings.py T1-T3)'

    def post(self, result):
        v = self.val
        return {
            # the exact rational the spelling denotes; a zero written with a minus sign is the signed zero -0
            'denotes': real_is(result, den10(v) == 0 and dec_neg(v), den10(v)),
            'neg_zero_iff': (cls_name(result) == 'Float') == (den10(v) == 0 and dec_neg(v)),
        }

    def raises(self):
        return {'ValueError': not dec_ok(self.val)}


class Hexnum_as_real(Contract):
    target = 'fpy2.ast.fpyast:Hexnum.as_real'
    params = {'self': 'Hexnum'}
    overrides = {'self.val': 'numstr'}
    returns = 'Fraction | Float'
    properties = ['C06']
    note = 'self.val ranges over all strings via the trusted regex decomposition (pyvc/strings.py T1-T3)'

    def post(self, result):
        v = self.val
        return {
            'denotes': real_is(result, den16(v) == 0 and hex_neg(v), den16(v)),
            'neg_zero_iff': (cls_name(result) == 'Float') == (den16(v) == 0 and hex_neg(v)),
        }

    def raises(self):
        return {'ValueError': not hex_ok(self.val)}


class RationalVal_as_real(Contract):
    target = 'fpy2.ast.fpyast:RationalVal.as_real'
    params = {'self': 'Integer | Rational | Digits'}
    returns = 'Fraction | Float'
    properties = ['C06']
    note = 'the inherited as_real of the literal classes that cannot spell a signed zero'

    def pre(self):
        return {'wellformed': lit_ok(self)}

    def post(self, result):
        return {'denotes': real_is(result, False, lit_value(self))}

    def raises(self):
        return {}
