"""
C05 contracts for fpy2/number/number/reals.py: RealFloat values behave as the dyadic rationals
they denote.  Postconditions are stated from the property (denotation D(x) = (-1)^s c 2^exp),
independent of the encoding of the operands.
"""
from speclib import *
from spec.real import *
from spec.floats import *
from spec.c05 import *


# ---------------------------------------------------------------------------
# unary operators

class RealFloat___neg__(Contract):
    target = 'fpy2.number.number.reals:RealFloat.__neg__'
    params = {'self': 'RealFloat'}
    returns = 'RealFloat'
    properties = ['C05']

    def post(self, result):
        r = result
        return {
            'fresh': not same_obj(r, self),
            'wf': r._c >= 0,
            # D(-x) = -D(x); IEEE: the sign flips even for zero
            'sign': r._s == (not self._s),
            'magnitude': t_mag_eq(trip(r), trip(self)),
            'encoding': r._exp == self._exp and r._c == self._c,
        }

    def raises(self):
        return {}


class RealFloat___pos__(Contract):
    target = 'fpy2.number.number.reals:RealFloat.__pos__'
    params = {'self': 'RealFloat'}
    returns = 'RealFloat'
    properties = ['C05']

    def post(self, result):
        r = result
        return {
            'fresh': not same_obj(r, self),
            'wf': r._c >= 0,
            'sign': r._s == self._s,
            'magnitude': t_mag_eq(trip(r), trip(self)),
            'encoding': r._exp == self._exp and r._c == self._c,
        }

    def raises(self):
        return {}


class RealFloat___abs__(Contract):
    target = 'fpy2.number.number.reals:RealFloat.__abs__'
    params = {'self': 'RealFloat'}
    returns = 'RealFloat'
    properties = ['C05']

    def post(self, result):
        r = result
        return {
            'fresh': not same_obj(r, self),
            'wf': r._c >= 0,
            'sign': r._s == False,
            'magnitude': t_mag_eq(trip(r), trip(self)),
            'encoding': r._exp == self._exp and r._c == self._c,
        }

    def raises(self):
        return {}


# ---------------------------------------------------------------------------
# constructors / conversions from native types (H5: exact or raise)

class RealFloat_from_int(Contract):
    target = 'fpy2.number.number.reals:RealFloat.from_int'
    params = {'x': 'int'}
    returns = 'RealFloat'
    properties = ['C05']

    def post(x, result):
        r = result
        return {
            'wf': r._c >= 0,
            'value': t_is_int(trip(r), x),
            # shape used by callers
            'exp': r._exp == 0,
            'c': r._c == ite(x < 0, -x, x),
            'sign': r._s == (x < 0),
            'flags_clear': flags_clear(r),
        }

    def raises(x):
        return {}


class RealFloat_from_float(Contract):
    target = 'fpy2.number.number.reals:RealFloat.from_float'
    params = {'x': 'float'}
    returns = 'RealFloat'
    properties = ['C05']

    def post(x, result):
        r = result
        return {
            'wf': r._c >= 0,
            # D(result) == binary64 reading of x, sign of zero included
            'sign': r._s == f64_sign(x),
            'value': t_mag_eq(trip(r), trip(x)),
            'exp': r._exp == f64_exp(x),
            'c': r._c == f64_c(x),
            'flags_clear': flags_clear(r),
        }

    def raises(x):
        return {'ValueError': not f64_finite(x)}


class RealFloat_zero(Contract):
    target = 'fpy2.number.number.reals:RealFloat.zero'
    params = {'s': 'bool'}
    returns = 'RealFloat'
    properties = ['C05']

    def post(s, result):
        return {'value': result._c == 0, 'sign': result._s == s, 'exp': result._exp == 0, 'flags_clear': flags_clear(result)}

    def raises(s):
        return {}


class RealFloat_one(Contract):
    target = 'fpy2.number.number.reals:RealFloat.one'
    params = {'s': 'bool'}
    returns = 'RealFloat'
    properties = ['C05']

    def post(s, result):
        return {'value': t_is_int(trip(result), ite(s, -1, 1)), 'sign': result._s == s, 'flags_clear': flags_clear(result)}

    def raises(s):
        return {}


class RealFloat_power_of_2(Contract):
    target = 'fpy2.number.number.reals:RealFloat.power_of_2'
    params = {'exp': 'int', 's': 'bool'}
    returns = 'RealFloat'
    properties = ['C05']

    def post(exp, s, result):
        r = result
        return {
            'wf': r._c >= 0,
            'sign': r._s == s,
            # D(result) == (-1)^s * 2^exp: aligned with the triple (s, exp, 1)
            'value': t_mag_eq(trip(r), (s, exp, 1)),
            'flags_clear': flags_clear(r),
        }

    def raises(exp, s):
        return {}


class RealFloat_from_rational(Contract):
    target = 'fpy2.number.number.reals:RealFloat.from_rational'
    params = {'x': 'Fraction'}
    returns = 'RealFloat'
    properties = ['C05']
    note = ('Fraction.numerator/.denominator are modelled as integers n, d >= 1 with x == n/d, not both even; '
            'dyadic <=> the (lowest-terms) denominator is a power of two')

    def post(x, result):
        r = result
        return {
            'wf': r._c >= 0,
            # D(result) == x
            'value': t_val_q(trip(r)) == x,
            'sign': r._s == (x < 0),
            'flags_clear': flags_clear(r),
            # encoding (helper for callers): n / 2^k  ->  c = |n|, exp = -k
            'exp': r._exp == 1 - bl(x.denominator),
            'c': r._c == abs(x.numerator),
        }

    def raises(x):
        return {'ValueError': not q_dyadic(x)}


class RealFloat_as_rational(Contract):
    target = 'fpy2.number.number.reals:RealFloat.as_rational'
    params = {'self': 'RealFloat'}
    returns = 'Fraction'
    properties = ['C05']

    def post(self, result):
        return {'value': result == t_val_q(trip(self))}

    def raises(self):
        return {}


# ---------------------------------------------------------------------------
# digit predicates (H4)

class RealFloat_is_more_significant(Contract):
    target = 'fpy2.number.number.reals:RealFloat.is_more_significant'
    params = {'self': 'RealFloat', 'n': 'int'}
    returns = 'bool'
    properties = ['C05']

    def post(self, n, result):
        # every non-zero digit lies above n  <=>  |x| is a multiple of 2^(n+1)  <=>  the low part of split(n) is zero
        return {'iff_low_part_zero': result == on_grid(self, n)}

    def raises(self, n):
        return {}


class RealFloat_is_integer(Contract):
    target = 'fpy2.number.number.reals:RealFloat.is_integer'
    params = {'self': 'RealFloat'}
    returns = 'bool'
    properties = ['C05']

    def post(self, result):
        return {'iff_integral': result == t_integral(trip(self))}

    def raises(self):
        return {}


class RealFloat_bit(Contract):
    target = 'fpy2.number.number.reals:RealFloat.bit'
    params = {'self': 'RealFloat', 'n': 'int'}
    returns = 'bool'
    properties = ['C05']

    def post(self, n, result):
        # the digit of weight 2^n in |x| = c * 2^exp is digit n-exp of c (0 below exp)
        return {
            'below': implies(n < self._exp, result == False),
            'digit': (result == digit(self._c, n - self._exp)) if n >= self._exp else True,
        }

    def raises(self, n):
        return {}


class RealFloat___int__(Contract):
    target = 'fpy2.number.number.reals:RealFloat.__int__'
    params = {'self': 'RealFloat'}
    returns = 'int'
    properties = ['C05']

    def post(self, result):
        return {
            # exactly D(self)
            'value': t_is_int(trip(self), result),
            'closed_form': result == t_int_value(trip(self)),
        }

    def raises(self):
        return {'ValueError': not t_integral(trip(self))}


class RealFloat_is_identical_to(Contract):
    target = 'fpy2.number.number.reals:RealFloat.is_identical_to'
    params = {'self': 'RealFloat', 'other': 'RealFloat'}
    returns = 'bool'
    properties = ['C05']

    def post(self, other, result):
        return {'same_encoding': result == (self._s == other._s and self._exp == other._exp and self._c == other._c)}

    def raises(self, other):
        return {}


# ---------------------------------------------------------------------------
# arithmetic (H1): D(a o b) = D(a) o D(b), any encoding, any operand type

class RealFloat___add__(Contract):
    target = 'fpy2.number.number.reals:RealFloat.__add__'
    params = {'self': 'RealFloat', 'other': 'RealFloat | int | float | Fraction'}
    returns = 'RealFloat | float'
    properties = ['C05']
    split = ['other']
    options = {'solve_eqs': True}

    def post(self, other, result):
        r = result
        fin = finite_operand(other)
        # a non-float operand always gives a RealFloat (a float result only absorbs a float NaN / infinity)
        out = {'result_type': cls_name(r) == 'RealFloat' if cls_name(other) != 'float' else True}
        if cls_name(other) == 'float':
            # NaN / infinity absorb the finite addend (IEEE 754 6.1, 6.2)
            out.update({
                'nan': implies(f64_isnan(other), cls_name(r) == 'float' and f64_isnan(r)),
                'inf': implies(f64_isinf(other), cls_name(r) == 'float' and f64_isinf(r) and f64_sign(r) == f64_sign(other)),
                'finite_type': implies(fin, cls_name(r) == 'RealFloat'),
            })
        if cls_name(r) == 'RealFloat':
            a = trip(self)
            b = trip(other)
            out.update({
                'fresh': not same_obj(r, self) and not same_obj(r, other),
                'wf': r._c >= 0,
                # the exact sum
                'sum': implies(fin, t_is_sum(trip(r), a, b)),
                # IEEE 754 6.3: an exact zero sum is -0 only if both operands are -0
                'zero_sign': implies(fin and r._c == 0, r._s == (a[2] == 0 and b[2] == 0 and a[0] and b[0])),
                'flags_clear': implies(self._c != 0 and b[2] != 0, flags_clear(r)),
            })
        return out

    def raises(self, other):
        return {'ValueError': (not q_dyadic(other)) if cls_name(other) == 'Fraction' else False}


class RealFloat___mul__(Contract):
    target = 'fpy2.number.number.reals:RealFloat.__mul__'
    params = {'self': 'RealFloat', 'other': 'RealFloat | int | float | Fraction'}
    returns = 'RealFloat | float'
    properties = ['C05']
    split = ['other']
    options = {'solve_eqs': True}

    def post(self, other, result):
        r = result
        fin = finite_operand(other)
        # a non-float operand always gives a RealFloat (a float result only absorbs a float NaN / infinity)
        out = {'result_type': cls_name(r) == 'RealFloat' if cls_name(other) != 'float' else True}
        if cls_name(other) == 'float':
            out.update({
                'nan': implies(f64_isnan(other), cls_name(r) == 'float' and f64_isnan(r)),
                # IEEE 754 7.2: 0 x inf is invalid -> NaN
                'zero_times_inf': implies(f64_isinf(other) and self._c == 0, cls_name(r) == 'float' and f64_isnan(r)),
                'inf': implies(f64_isinf(other) and self._c != 0,
                               cls_name(r) == 'float' and f64_isinf(r) and f64_sign(r) == xor(self._s, f64_sign(other))),
                'finite_type': implies(fin, cls_name(r) == 'RealFloat'),
            })
        if cls_name(r) == 'RealFloat':
            a = trip(self)
            b = trip(other)
            out.update({
                'fresh': not same_obj(r, self) and not same_obj(r, other),
                'wf': r._c >= 0,
                # the exact product
                'prod': implies(fin, t_is_prod(trip(r), a, b)),
                # IEEE 754 6.3: the sign of a product is the XOR of the signs, zeros included
                'sign': implies(fin, r._s == xor(a[0], b[0])),
                'flags_clear': flags_clear(r),
            })
        return out

    def raises(self, other):
        return {'ValueError': (not q_dyadic(other)) if cls_name(other) == 'Fraction' else False}


class RealFloat___radd__(Contract):
    target = 'fpy2.number.number.reals:RealFloat.__radd__'
    params = {'self': 'RealFloat', 'other': 'RealFloat | int | float | Fraction'}
    returns = 'RealFloat | float'
    properties = ['C05']
    split = ['other']
    options = {'solve_eqs': True}

    def post(self, other, result):
        r = result
        fin = finite_operand(other)
        # a non-float operand always gives a RealFloat (a float result only absorbs a float NaN / infinity)
        out = {'result_type': cls_name(r) == 'RealFloat' if cls_name(other) != 'float' else True}
        if cls_name(other) == 'float':
            out.update({
                'nan': implies(f64_isnan(other), cls_name(r) == 'float' and f64_isnan(r)),
                'inf': implies(f64_isinf(other), cls_name(r) == 'float' and f64_isinf(r) and f64_sign(r) == f64_sign(other)),
                'finite_type': implies(fin, cls_name(r) == 'RealFloat'),
            })
        if cls_name(r) == 'RealFloat':
            a = trip(self)
            b = trip(other)
            out.update({
                'wf': r._c >= 0,
                'sum': implies(fin, t_is_sum(trip(r), a, b)),
                'zero_sign': implies(fin and r._c == 0, r._s == (a[2] == 0 and b[2] == 0 and a[0] and b[0])),
            })
        return out

    def raises(self, other):
        return {'ValueError': (not q_dyadic(other)) if cls_name(other) == 'Fraction' else False}


class RealFloat___sub__(Contract):
    target = 'fpy2.number.number.reals:RealFloat.__sub__'
    params = {'self': 'RealFloat', 'other': 'RealFloat | int | float | Fraction'}
    returns = 'RealFloat | float'
    properties = ['C05']
    split = ['other']
    options = {'solve_eqs': True}
    no_use = ['RealFloat.__add__', 'RealFloat.__neg__']       # verified against the bodies (inlined), not the contracts
    note = 'the sign of an exact zero difference is only specified for operands that carry a signed zero (RealFloat, float)'

    def post(self, other, result):
        r = result
        fin = finite_operand(other)
        # a non-float operand always gives a RealFloat (a float result only absorbs a float NaN / infinity)
        out = {'result_type': cls_name(r) == 'RealFloat' if cls_name(other) != 'float' else True}
        if cls_name(other) == 'float':
            out.update({
                'nan': implies(f64_isnan(other), cls_name(r) == 'float' and f64_isnan(r)),
                # x - (+-inf) = -+inf
                'inf': implies(f64_isinf(other), cls_name(r) == 'float' and f64_isinf(r) and f64_sign(r) == (not f64_sign(other))),
                'finite_type': implies(fin, cls_name(r) == 'RealFloat'),
            })
        if cls_name(r) == 'RealFloat':
            a = trip(self)
            b = trip(other)
            out.update({
                'wf': r._c >= 0,
                # the exact difference
                'diff': implies(fin, t_is_diff(trip(r), a, trip_neg(other))),
                'nonzero_zero_sign': implies(fin and r._c == 0 and (a[2] != 0 or b[2] != 0), r._s == False),
            })
            if has_zero_sign(other):
                # IEEE 754 6.3: x - y = x + (-y); an exact zero is -0 only for (-0) - (+0)
                out.update({'zero_sign': implies(fin and r._c == 0, r._s == (a[2] == 0 and b[2] == 0 and a[0] and not b[0]))})
        return out

    def raises(self, other):
        return {'ValueError': (not q_dyadic(other)) if cls_name(other) == 'Fraction' else False}


class RealFloat___rsub__(Contract):
    target = 'fpy2.number.number.reals:RealFloat.__rsub__'
    params = {'self': 'RealFloat', 'other': 'RealFloat | int | float | Fraction'}
    returns = 'RealFloat | float'
    properties = ['C05']
    split = ['other']
    options = {'solve_eqs': True}
    no_use = ['RealFloat.__add__', 'RealFloat.__neg__']       # verified against the bodies (inlined), not the contracts

    def post(self, other, result):
        r = result
        fin = finite_operand(other)
        # a non-float operand always gives a RealFloat (a float result only absorbs a float NaN / infinity)
        out = {'result_type': cls_name(r) == 'RealFloat' if cls_name(other) != 'float' else True}
        if cls_name(other) == 'float':
            out.update({
                'nan': implies(f64_isnan(other), cls_name(r) == 'float' and f64_isnan(r)),
                # (+-inf) - x = +-inf
                'inf': implies(f64_isinf(other), cls_name(r) == 'float' and f64_isinf(r) and f64_sign(r) == f64_sign(other)),
                'finite_type': implies(fin, cls_name(r) == 'RealFloat'),
            })
        if cls_name(r) == 'RealFloat':
            a = trip(self)
            b = trip(other)
            out.update({
                'wf': r._c >= 0,
                # other - self, exactly
                'diff': implies(fin, t_is_sum(trip(r), t_neg(a), b)),      # (-self) + other
                # an exact zero is -0 only for (-0) - (+0)   (an int / Fraction zero counts as +0)
                'zero_sign': implies(fin and r._c == 0, r._s == (a[2] == 0 and b[2] == 0 and b[0] and not a[0])),
            })
        return out

    def raises(self, other):
        return {'ValueError': (not q_dyadic(other)) if cls_name(other) == 'Fraction' else False}


class RealFloat___rmul__(Contract):
    target = 'fpy2.number.number.reals:RealFloat.__rmul__'
    params = {'self': 'RealFloat', 'other': 'RealFloat | int | float | Fraction'}
    returns = 'RealFloat | float'
    properties = ['C05']
    split = ['other']
    options = {'solve_eqs': True}

    def post(self, other, result):
        r = result
        fin = finite_operand(other)
        # a non-float operand always gives a RealFloat (a float result only absorbs a float NaN / infinity)
        out = {'result_type': cls_name(r) == 'RealFloat' if cls_name(other) != 'float' else True}
        if cls_name(other) == 'float':
            out.update({
                'nan': implies(f64_isnan(other), cls_name(r) == 'float' and f64_isnan(r)),
                'zero_times_inf': implies(f64_isinf(other) and self._c == 0, cls_name(r) == 'float' and f64_isnan(r)),
                'inf': implies(f64_isinf(other) and self._c != 0,
                               cls_name(r) == 'float' and f64_isinf(r) and f64_sign(r) == xor(self._s, f64_sign(other))),
                'finite_type': implies(fin, cls_name(r) == 'RealFloat'),
            })
        if cls_name(r) == 'RealFloat':
            a = trip(self)
            b = trip(other)
            out.update({
                'wf': r._c >= 0,
                'prod': implies(fin, t_is_prod(trip(r), b, a)),
                'sign': implies(fin, r._s == xor(a[0], b[0])),
            })
        return out

    def raises(self, other):
        return {'ValueError': (not q_dyadic(other)) if cls_name(other) == 'Fraction' else False}


class RealFloat___pow__(Contract):
    target = 'fpy2.number.number.reals:RealFloat.__pow__'
    params = {'self': 'RealFloat', 'exponent': 'int'}
    returns = 'RealFloat'
    properties = ['C05']

    def post(self, exponent, result):
        r = result
        k = exponent
        return {
            'fresh': not same_obj(r, self),
            'wf': r._c >= 0,
            # x^0 = 1
            'zeroth': implies(k == 0, t_is_int(trip(r), 1) and not r._s),
            # ((-1)^s c 2^exp)^k = (-1)^(s k) c^k 2^(exp k)
            'magnitude': implies(k > 0, t_mag_eq(trip(r), (False, self._exp * k, ipow(self._c, k)))),
            'sign': implies(k > 0, r._s == (self._s and fmod(k, 2) == 1)),
            'flags_clear': flags_clear(r),
        }

    def raises(self, exponent):
        return {'ValueError': exponent < 0}


# ---------------------------------------------------------------------------
# order (H2): compare / == / < / <= / > / >= agree with the denoted values across operand types
# (the RealFloat x RealFloat case of compare is contracts/reals.py: RealFloat_compare)

class RealFloat_compare_mixed(Contract):
    target = 'fpy2.number.number.reals:RealFloat.compare'
    params = {'self': 'RealFloat', 'other': 'int | float | Fraction'}
    returns = 'Ordering | None'
    properties = ['C05']
    split = ['other']
    options = {'solve_eqs': True}

    def post(self, other, result):
        if cls_name(other) == 'int':
            fork_on(other < 0)
        lt, eq, gt = cmp3(trip(self), other)
        return {
            # None iff unordered (a NaN is involved)
            'none_iff_unordered': (result is None) == (not lt and not eq and not gt),
            'less': ord_is(result, 'LESS') == lt,
            'equal': ord_is(result, 'EQUAL') == eq,
            'greater': ord_is(result, 'GREATER') == gt,
        }

    def raises(self, other):
        return {}


class RealFloat___eq__(Contract):
    target = 'fpy2.number.number.reals:RealFloat.__eq__'
    params = {'self': 'RealFloat', 'other': 'RealFloat | int | float | Fraction | None'}
    returns = 'bool'
    properties = ['C05']
    split = ['other']

    def post(self, other, result):
        return {'eq': result == (False if other is None else cmp3(trip(self), other)[1])}

    def raises(self, other):
        return {}


class RealFloat___lt__(Contract):
    target = 'fpy2.number.number.reals:RealFloat.__lt__'
    params = {'self': 'RealFloat', 'other': 'RealFloat | int | float | Fraction'}
    returns = 'bool'
    properties = ['C05']
    split = ['other']

    def post(self, other, result):
        return {'lt': result == cmp3(trip(self), other)[0]}

    def raises(self, other):
        return {}


class RealFloat___le__(Contract):
    target = 'fpy2.number.number.reals:RealFloat.__le__'
    params = {'self': 'RealFloat', 'other': 'RealFloat | int | float | Fraction'}
    returns = 'bool'
    properties = ['C05']
    split = ['other']

    def post(self, other, result):
        c = cmp3(trip(self), other)
        return {'le': result == (c[0] or c[1])}

    def raises(self, other):
        return {}


class RealFloat___gt__(Contract):
    target = 'fpy2.number.number.reals:RealFloat.__gt__'
    params = {'self': 'RealFloat', 'other': 'RealFloat | int | float | Fraction'}
    returns = 'bool'
    properties = ['C05']
    split = ['other']

    def post(self, other, result):
        return {'gt': result == cmp3(trip(self), other)[2]}

    def raises(self, other):
        return {}


class RealFloat___ge__(Contract):
    target = 'fpy2.number.number.reals:RealFloat.__ge__'
    params = {'self': 'RealFloat', 'other': 'RealFloat | int | float | Fraction'}
    returns = 'bool'
    properties = ['C05']
    split = ['other']

    def post(self, other, result):
        c = cmp3(trip(self), other)
        return {'ge': result == (c[2] or c[1])}

    def raises(self, other):
        return {}


# ---------------------------------------------------------------------------
# hash (H3), under the assumed stdlib model: hash(int i) == hash(Fraction(i)) == H(i), H: Q -> Z

class RealFloat___hash__(Contract):
    target = 'fpy2.number.number.reals:RealFloat.__hash__'
    params = {'self': 'RealFloat'}
    returns = 'int'
    properties = ['C05']
    note = 'assumed: hash(int i) == hash(Fraction(i)) == H(i) for one function H on the rationals (CPython numeric hash)'

    def post(self, result):
        # the hash is a function of the denoted value only: equal values (of any numeric type) hash equally
        return {'hash_of_value': result == hashq(t_val_q(trip(self)))}

    def raises(self):
        return {}


# ---------------------------------------------------------------------------
# normalisation (H4): value-preserving, or ValueError exactly when no such encoding exists

class RealFloat_normalize(Contract):
    target = 'fpy2.number.number.reals:RealFloat.normalize'
    params = {'self': 'RealFloat', 'p': 'int | None', 'n': 'int | None'}
    returns = 'RealFloat'
    properties = ['C05']
    split = ['p', 'n']

    def post(self, p, n, result):
        r = result
        out = {
            'fresh': not same_obj(r, self),
            'wf': r._c >= 0,
            # same value, same sign (of zero too)
            'sign': r._s == self._s,
            'value': t_mag_eq(trip(r), trip(self)),
            'flags_clear': flags_clear(r),
        }
        if p is None and n is None:
            out.update({'copy': r._exp == self._exp and r._c == self._c})
        if p is not None and n is None:
            out.update({'exactly_p_digits': implies(self._c != 0, bl(r._c) == p),
                        'zero': implies(self._c == 0, r._c == 0)})
        if p is None and n is not None:
            out.update({'exp_is_n_plus_1': r._exp == n + 1})
        if p is not None and n is not None:
            out.update({'above_n': r._exp > n,
                        'at_most_p_digits': bl(r._c) <= p,
                        # maximal precision: p digits unless the position bound n stops the shift
                        'maximal': implies(self._c != 0, bl(r._c) == p or r._exp == n + 1)})
        return out

    def raises(self, p, n):
        return {'ValueError': (p is not None and p < 0)
                              or (p is not None and not fits_p(self, p))
                              or (n is not None and not on_grid(self, n))}
