"""
C13 / A3: the union-find structure (fpy2/utils/unionfind.py) against an abstract partition view
(spec/c13.py: ghost representative function R and rank N; `uf_wf`, `uf_sets_ok`).

Elements are opaque keys (`Key[Elem]`: an uninterpreted sort whose equality is the elements' __eq__, assumed
consistent with __hash__); `_parent: dict[Elem, Elem]` and `_sets: dict[Elem, set[Elem]]` are symbolic
containers (pyvc/containers.py, pyvc/ufmaps.py).  Unbounded: no limit on the number of elements.
"""
from speclib import *
from spec.c13 import *


class Unionfind__find(Contract):
    target = 'fpy2.utils.unionfind:Unionfind._find'
    params = {'self': 'Unionfind', 'x': 'Key[Elem]'}
    overrides = {'self._parent': 'dict[Key[Elem], Key[Elem]]', 'self._sets': 'dict[Key[Elem], set[Key[Elem]]]'}
    returns = 'Key[Elem]'
    properties = ['C13']
    modifies = ['self._parent']
    loop_types = {0: {'x': 'Key[Elem]', 'parent': 'Key[Elem]', 'gparent': 'Key[Elem]'}}
    options = {'loop_modifies': {0: ['self._parent']}, 'feas_ms': 150}
    note = ('path-halving loop by the heap while rule of pyvc/ufmaps.py: invariant inv0 (the structure still realises '
            'the same view (R, N); x stays in the class of the original x), variant var0 = rank of x')

    def pre(self, x):
        return named('wf_', uf_wf(self._parent, uf_root, uf_rank))

    def inv0(self, x, parent, old):
        out = named('wf_', uf_wf(self._parent, uf_root, uf_rank))
        out.update({
            'dom': uf_same_dom(self._parent, old.self._parent),
            'x_in': x in self._parent,
            'parent': parent == map_at(self._parent, x),
            'same_class': uf_root(x) == uf_root(old.x),
        })
        return out

    def var0(self, x):
        return uf_rank(x)

    def post(self, x, result, old):
        out = named('wf_', uf_wf(self._parent, uf_root, uf_rank))     # same R: the partition and its representatives are kept
        out.update({
            'representative': result == uf_root(x),
            'dom': uf_same_dom(self._parent, old.self._parent),
        })
        return out

    def raises(self, x):
        return {'KeyError': x not in self._parent}


class Unionfind_find(Contract):
    target = 'fpy2.utils.unionfind:Unionfind.find'
    params = {'self': 'Unionfind', 'x': 'Key[Elem]'}
    overrides = {'self._parent': 'dict[Key[Elem], Key[Elem]]', 'self._sets': 'dict[Key[Elem], set[Key[Elem]]]'}
    returns = 'Key[Elem]'
    properties = ['C13']
    modifies = ['self._parent']
    options = {'feas_ms': 150}

    def pre(self, x):
        return named('wf_', uf_wf(self._parent, uf_root, uf_rank))

    def post(self, x, result, old):
        out = named('wf_', uf_wf(self._parent, uf_root, uf_rank))
        out.update({
            'representative': result == uf_root(x),
            'dom': uf_same_dom(self._parent, old.self._parent),
        })
        return out

    def raises(self, x):
        return {'KeyError': x not in self._parent}


def uf_union_root(x, y):
    """the view after union(x, y): the class of y is renamed to the representative of x, the rest is left"""
    return lambda k: ite(uf_root(k) == uf_root(y), uf_root(x), uf_root(k))


def uf_union_rank(x, y):
    """ranks after union(x, y): the class of y moves below the representative of x"""
    return lambda k: ite(uf_root(k) == uf_root(y) and uf_root(x) != uf_root(y), uf_rank(k) + uf_rank(uf_root(x)) + 1, uf_rank(k))


class Unionfind__union(Contract):
    target = 'fpy2.utils.unionfind:Unionfind._union'
    params = {'self': 'Unionfind', 'x': 'Key[Elem]', 'y': 'Key[Elem]'}
    overrides = {'self._parent': 'dict[Key[Elem], Key[Elem]]', 'self._sets': 'dict[Key[Elem], set[Key[Elem]]]'}
    returns = 'Key[Elem]'
    properties = ['C13']
    modifies = ['self._parent', 'self._sets']
    options = {'feas_ms': 150}

    def pre(self, x, y):
        out = named('wf_', uf_wf(self._parent, uf_root, uf_rank))
        out.update(uf_sets_ok(self._sets, self._parent, uf_root))
        return out

    def post(self, x, y, result, old):
        # whole-view postcondition: the new state realises the view in which exactly the classes of x and y are merged
        out = named('wf_', uf_wf(self._parent, uf_union_root(x, y), uf_union_rank(x, y)))
        out.update(uf_sets_ok(self._sets, self._parent, uf_union_root(x, y)))
        out.update({
            'representative': result == uf_root(x),
            'dom': uf_same_dom(self._parent, old.self._parent),
        })
        return out

    def raises(self, x, y):
        return {'KeyError': (x not in self._parent) or (y not in self._parent)}


class Unionfind_union(Contract):
    target = 'fpy2.utils.unionfind:Unionfind.union'
    params = {'self': 'Unionfind', 'x': 'Key[Elem]', 'y': 'Key[Elem]'}
    overrides = {'self._parent': 'dict[Key[Elem], Key[Elem]]', 'self._sets': 'dict[Key[Elem], set[Key[Elem]]]'}
    returns = 'Key[Elem]'
    properties = ['C13']
    modifies = ['self._parent', 'self._sets']
    options = {'feas_ms': 150}

    def pre(self, x, y):
        out = named('wf_', uf_wf(self._parent, uf_root, uf_rank))
        out.update(uf_sets_ok(self._sets, self._parent, uf_root))
        return out

    def post(self, x, y, result, old):
        out = named('wf_', uf_wf(self._parent, uf_union_root(x, y), uf_union_rank(x, y)))
        out.update(uf_sets_ok(self._sets, self._parent, uf_union_root(x, y)))
        out.update({
            'representative': result == uf_root(x),
            'dom': uf_same_dom(self._parent, old.self._parent),
        })
        return out

    def raises(self, x, y):
        return {'KeyError': (x not in self._parent) or (y not in self._parent)}
