"""
C13 / A3: the union-find structure (fpy2/utils/unionfind.py) against an abstract partition view
(spec/c13.py: ghost representative function R and rank N; `uf_wf`, `uf_sets_ok`).

Elements are opaque keys (`Key[Elem]`: an uninterpreted sort whose equality is the elements' __eq__, assumed
consistent with __hash__); `_parent: dict[Elem, Elem]` and `_sets: dict[Elem, set[Elem]]` are symbolic
containers (pyvc/containers.py, pyvc/ufmaps.py).  Unbounded: no limit on the number of elements.
"""
from speclib import *
from spec.c13 import *


class Unionfind__find(Contract):
    target = 'fpy2.utils.unionfind:Unionfind._find'
    params = {'self': 'Unionfind', 'x': 'Key[Elem]'}
    overrides = {'self._parent': 'dict[Key[Elem], Key[Elem]]', 'self._sets': 'dict[Key[Elem], set[Key[Elem]]]'}
    returns = 'Key[Elem]'
    properties = ['C13']
    modifies = ['self._parent']
    loop_types = {0: {'x': 'Key[Elem]', 'parent': 'Key[Elem]', 'gparent': 'Key[Elem]'}}
    options = {'loop_modifies': {0: ['self._parent']}, 'feas_ms': 150, 'refute_universe': {'Elem': 3}}
    note = ('path-halving loop by the heap while rule of pyvc/ufmaps.py: invariant inv0 (the structure still realises '
            'the same view (R, N); x stays in the class of the original x), variant var0 = rank of x')

    def pre(self, x):
        return named('wf_', uf_wf(self._parent, uf_root, uf_rank))

    def inv0(self, x, parent, old):
        out = named('wf_', uf_wf(self._parent, uf_root, uf_rank))
        out.update({
            'dom': uf_same_dom(self._parent, old.self._parent),
            'x_in': x in self._parent,
            'parent': parent == map_at(self._parent, x),
            'same_class': uf_root(x) == uf_root(old.x),
        })
        return out

    def var0(self, x):
        return uf_rank(x)

    def post(self, x, result, old):
        out = named('wf_', uf_wf(self._parent, uf_root, uf_rank))     # same R: the partition and its representatives are kept
        out.update({
            'representative': result == uf_root(x),
            'dom': uf_same_dom(self._parent, old.self._parent),
        })
        return out

    def raises(self, x):
        return {'KeyError': x not in self._parent}


class Unionfind_find(Contract):
    target = 'fpy2.utils.unionfind:Unionfind.find'
    params = {'self': 'Unionfind', 'x': 'Key[Elem]'}
    overrides = {'self._parent': 'dict[Key[Elem], Key[Elem]]', 'self._sets': 'dict[Key[Elem], set[Key[Elem]]]'}
    returns = 'Key[Elem]'
    properties = ['C13']
    modifies = ['self._parent']
    options = {'feas_ms': 150, 'refute_universe': {'Elem': 3}}

    def pre(self, x):
        return named('wf_', uf_wf(self._parent, uf_root, uf_rank))

    def post(self, x, result, old):
        out = named('wf_', uf_wf(self._parent, uf_root, uf_rank))
        out.update({
            'representative': result == uf_root(x),
            'dom': uf_same_dom(self._parent, old.self._parent),
        })
        return out

    def raises(self, x):
        return {'KeyError': x not in self._parent}


def uf_union_root(x, y):
    """the view after union(x, y): the class of y is renamed to the representative of x, the rest is left"""
    return lambda k: ite(uf_root(k) == uf_root(y), uf_root(x), uf_root(k))


def uf_union_rank(x, y):
    """ranks after union(x, y): the class of y moves below the representative of x"""
    return lambda k: ite(uf_root(k) == uf_root(y) and uf_root(x) != uf_root(y), uf_rank(k) + uf_rank(uf_root(x)) + 1, uf_rank(k))


class Unionfind__union(Contract):
    target = 'fpy2.utils.unionfind:Unionfind._union'
    params = {'self': 'Unionfind', 'x': 'Key[Elem]', 'y': 'Key[Elem]'}
    overrides = {'self._parent': 'dict[Key[Elem], Key[Elem]]', 'self._sets': 'dict[Key[Elem], set[Key[Elem]]]'}
    returns = 'Key[Elem]'
    properties = ['C13']
    modifies = ['self._parent', 'self._sets']
    options = {'feas_ms': 150, 'refute_universe': {'Elem': 3}}

    def pre(self, x, y):
        out = named('wf_', uf_wf(self._parent, uf_root, uf_rank))
        out.update(uf_sets_ok(self._sets, self._parent, uf_root))
        return out

    def post(self, x, y, result, old):
        # whole-view postcondition: the new state realises the view in which exactly the classes of x and y are merged
        out = named('wf_', uf_wf(self._parent, uf_union_root(x, y), uf_union_rank(x, y)))
        out.update(uf_sets_ok(self._sets, self._parent, uf_union_root(x, y)))
        out.update({
            'representative': result == uf_root(x),
            'dom': uf_same_dom(self._parent, old.self._parent),
        })
        return out

    def raises(self, x, y):
        return {'KeyError': (x not in self._parent) or (y not in self._parent)}


class Unionfind_union(Contract):
    target = 'fpy2.utils.unionfind:Unionfind.union'
    params = {'self': 'Unionfind', 'x': 'Key[Elem]', 'y': 'Key[Elem]'}
    overrides = {'self._parent': 'dict[Key[Elem], Key[Elem]]', 'self._sets': 'dict[Key[Elem], set[Key[Elem]]]'}
    returns = 'Key[Elem]'
    properties = ['C13']
    modifies = ['self._parent', 'self._sets']
    options = {'feas_ms': 150, 'refute_universe': {'Elem': 3}}

    def pre(self, x, y):
        out = named('wf_', uf_wf(self._parent, uf_root, uf_rank))
        out.update(uf_sets_ok(self._sets, self._parent, uf_root))
        return out

    def post(self, x, y, result, old):
        out = named('wf_', uf_wf(self._parent, uf_union_root(x, y), uf_union_rank(x, y)))
        out.update(uf_sets_ok(self._sets, self._parent, uf_union_root(x, y)))
        out.update({
            'representative': result == uf_root(x),
            'dom': uf_same_dom(self._parent, old.self._parent),
        })
        return out

    def raises(self, x, y):
        return {'KeyError': (x not in self._parent) or (y not in self._parent)}


def uf_add_root(parent0, x):
    """the view after add(x): a new element is a singleton class with itself as representative"""
    return lambda k: ite(k == x and not (x in parent0), x, uf_root(k))


def uf_add_rank(parent0, x):
    return lambda k: ite(k == x and not (x in parent0), 0, uf_rank(k))


class Unionfind_add(Contract):
    target = 'fpy2.utils.unionfind:Unionfind.add'
    params = {'self': 'Unionfind', 'x': 'Key[Elem]'}
    overrides = {'self._parent': 'dict[Key[Elem], Key[Elem]]', 'self._sets': 'dict[Key[Elem], set[Key[Elem]]]'}
    returns = 'Key[Elem]'
    properties = ['C13']
    modifies = ['self._parent', 'self._sets']
    options = {'feas_ms': 150, 'refute_universe': {'Elem': 3}}

    def pre(self, x):
        out = named('wf_', uf_wf(self._parent, uf_root, uf_rank))
        out.update(uf_sets_ok(self._sets, self._parent, uf_root))
        return out

    def post(self, x, result, old):
        R = uf_add_root(old.self._parent, x)
        out = named('wf_', uf_wf(self._parent, R, uf_add_rank(old.self._parent, x)))
        out.update(uf_sets_ok(self._sets, self._parent, R))
        out.update({
            'representative': result == R(x),
            'dom': forall_keys('Elem', lambda k: (k in self._parent) == ((k in old.self._parent) or k == x)),
        })
        return out

    def raises(self, x):
        return {}


class Unionfind_component(Contract):
    target = 'fpy2.utils.unionfind:Unionfind.component'
    params = {'self': 'Unionfind', 'x': 'Key[Elem]'}
    overrides = {'self._parent': 'dict[Key[Elem], Key[Elem]]', 'self._sets': 'dict[Key[Elem], set[Key[Elem]]]'}
    returns = 'set[Key[Elem]]'
    properties = ['C13']
    modifies = ['self._parent']
    inline = True
    options = {'feas_ms': 150, 'refute_universe': {'Elem': 3}}

    def pre(self, x):
        out = named('wf_', uf_wf(self._parent, uf_root, uf_rank))
        out.update(uf_sets_ok(self._sets, self._parent, uf_root))
        return out

    def post(self, x, result, old):
        out = named('wf_', uf_wf(self._parent, uf_root, uf_rank))
        out.update({
            # the result is exactly the class of x in the abstract view
            'is_class': forall_keys('Elem', lambda k: (k in result) == ((k in self._parent) and uf_root(k) == uf_root(x))),
        })
        return out

    def raises(self, x):
        return {'KeyError': x not in self._parent}
