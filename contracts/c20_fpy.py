"""
C20 part X2: FPy-DSL functions under the FPy dialect (pyvc/fpydialect.py), PROOF for
every rounding context: arithmetic nodes denote rnd(C, exact-op), rnd is uninterpreted
(only rnd(REAL, v) = v is used), values are finite reals.

`ctx` is the ambient context (a real fpy2 context natively); operands are arbitrary
reals (they need not even be representable).  Precondition: the rounded result is finite.
"""
from speclib import *
from spec.c20 import *


class eft_ideal_2sum(Contract):
    target = 'fpy2.libraries.eft:ideal_2sum'
    params = {'a': 'Fraction', 'b': 'Fraction', 'ctx': 'FpyCtx'}
    returns = 'tuple[Fraction, Fraction]'
    properties = ['C20']
    options = {'dialect': 'fpy'}
    note = 'FPy dialect, any context (rnd uninterpreted); finite rounded result'

    def pre(a, b, ctx):
        return {'finite': fpy_finite(ctx, a + b)}

    def post(a, b, ctx, result):
        s, t = fpy_val(result)
        return {
            's_rounded_sum': s == fpy_rnd(ctx, a + b),
            'exact': s + t == a + b,
        }

    def raises(a, b, ctx):
        return {}


class eft_ideal_2mul(Contract):
    target = 'fpy2.libraries.eft:ideal_2mul'
    params = {'a': 'Fraction', 'b': 'Fraction', 'ctx': 'FpyCtx'}
    returns = 'tuple[Fraction, Fraction]'
    properties = ['C20']
    options = {'dialect': 'fpy'}
    note = 'FPy dialect, any context (rnd uninterpreted); finite rounded result'

    def pre(a, b, ctx):
        return {'finite': fpy_finite(ctx, a * b)}

    def post(a, b, ctx, result):
        s, t = fpy_val(result)
        return {
            's_rounded_product': s == fpy_rnd(ctx, a * b),
            'exact': s + t == a * b,
        }

    def raises(a, b, ctx):
        return {}


class eft_ideal_fma(Contract):
    target = 'fpy2.libraries.eft:ideal_fma'
    params = {'a': 'Fraction', 'b': 'Fraction', 'c': 'Fraction', 'ctx': 'FpyCtx'}
    returns = 'tuple[Fraction, Fraction]'
    properties = ['C20']
    options = {'dialect': 'fpy'}
    note = 'FPy dialect, any context (rnd uninterpreted); finite rounded result'

    def pre(a, b, c, ctx):
        return {'finite': fpy_finite(ctx, a * b + c)}

    def post(a, b, c, ctx, result):
        r, t = fpy_val(result)
        return {
            'r_rounded_fma': r == fpy_rnd(ctx, a * b + c),
            'exact': r + t == a * b + c,
        }

    def raises(a, b, c, ctx):
        return {}


class core_ldexp(Contract):
    target = 'fpy2.libraries.core:ldexp'
    params = {'x': 'Fraction', 'n': 'Fraction', 'ctx': 'FpyCtx'}
    returns = 'Fraction'
    properties = ['C20']
    options = {'dialect': 'fpy'}
    note = ('FPy dialect, any context: the exact product x * 2^n rounded once; 2^n is the uninterpreted fpy_pow(2, n) '
            'evaluated under REAL (no rounding); AssertionError iff n is not an integer')

    def pre(x, n, ctx):
        return {'finite': (fpy_finite(ctx, x * fpy_pow2(n))) if fpy_is_int(n) else True}

    def post(x, n, ctx, result):
        return {
            'single_rounding': fpy_val(result) == fpy_rnd(ctx, x * fpy_pow2(n)),
        }

    def raises(x, n, ctx):
        return {'AssertionError': not fpy_is_int(n)}
