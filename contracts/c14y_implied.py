"""
C14 part (4b): the recursion of branch refinement, `_FormatInferInstance._implied(cond, truth)`.

Statement (property C14): for every valuation of the variables under which `cond` evaluates to `truth`, every
refinement (d, fmt) returned holds: the value of the variable defined by d is a member of fmt.

    pre    wf_cond(cond)
    post   alist_all(ref_ok, result)                                  (every fmt is well-formed, on the grid)
           holds(cond) == truth  ==>  alist_all(ref_holds, result)    (the statement)
           And & not truth, Or & truth, any other node, a comparison chain:  result == []
           Not: the operand's refinements (one recursive result); And & truth / Or & not truth: one recursive
           result per operand, none dropped; Compare with one operator: `_implied_compare`'s list

`holds` / `wf_cond` (spec/c14y_refine.py) are ghost predicates of the node identity whose DEFINING equations for
the node at hand are the `axioms` below.  The node under verification is a real object of class Not / And / Or /
Compare / Var / BoolVal (split); its operands are opaque keys (`Key[Expr]`), so the recursive calls go through THIS
contract (the induction hypothesis: it is applied to the operand, a strict sub-term; `decreases` = the ghost size).
The collected refinements are an abstract list (pyvc/abslist.py): `_implied` only creates `[]`, receives, splices
and returns them.

The operand tuple of And / Or has symbolic length in the code; the comprehension
`[i for a in cond.args for i in self._implied(a, ..)]` needs a concrete outer loop, so the arity is fixed to 1, 2
and 3 operands (three contracts: BOUNDED IN THE ARITY, the induction itself is unbounded in the depth).
"""
from speclib import *
from spec.real import *
from spec.floats import *
from spec.c14 import *
from spec.c14x_refine import *
from spec.c14y_refine import *


def size(cond):
    """ghost: number of nodes of the expression (termination measure)"""
    return ghost('c14y_size', cond)


def _all_holds(args):
    r = True
    for a in args:
        r = r and holds(a)
    return r


def _any_holds(args):
    r = False
    for a in args:
        r = r or holds(a)
    return r


def _all_wf(args):
    r = True
    for a in args:
        r = r and wf_cond(a)
    return r


def _sum_size(args):
    r = 1
    for a in args:
        r = r + size(a)
    return r


def _implied_axioms(cond):
    k = cls_name(cond)
    if k == 'Not':
        return {'holds_not': holds(cond) == (not holds(cond.args[0])),
                'wf_not': wf_cond(cond) == wf_cond(cond.args[0]),
                'size_not': size(cond) == 1 + size(cond.args[0]) and size(cond.args[0]) >= 1}
    if k == 'And':
        return {'holds_and': holds(cond) == _all_holds(cond.args),
                'wf_and': wf_cond(cond) == _all_wf(cond.args),
                'size_and': size(cond) == _sum_size(cond.args) and _min_size(cond.args)}
    if k == 'Or':
        return {'holds_or': holds(cond) == _any_holds(cond.args),
                'wf_or': wf_cond(cond) == _all_wf(cond.args),
                'size_or': size(cond) == _sum_size(cond.args) and _min_size(cond.args)}
    if k == 'Compare':
        # a well-formed comparison chain has one more operand than operators (what the parser builds)
        return {'wf_compare_arity': implies(wf_cond(cond), len(cond.args) == len(cond.ops) + 1)}
    return {}


def _min_size(args):
    r = True
    for a in args:
        r = r and size(a) >= 1
    return r


def _implied_post(cond, truth, result):
    out = {
        'ok': alist_all(ref_ok, result),
        'implied': implies(holds(cond) == truth, alist_all(ref_holds, result)),
    }
    k = cls_name(cond)
    if k == 'Not':
        out.update({'not_one_result': alist_parts(result) == 1})
    elif k == 'And':
        out.update({'and_false_nothing': implies(not truth, alist_len(result) == 0),
                    'and_true_all_operands': alist_parts(result) == (len(cond.args) if truth else 0)})
    elif k == 'Or':
        out.update({'or_true_nothing': implies(truth, alist_len(result) == 0),
                    'or_false_all_operands': alist_parts(result) == (0 if truth else len(cond.args))})
    elif k == 'Compare':
        out.update({'chain_nothing': implies(len(cond.ops) != 1, alist_len(result) == 0),
                    'compare_one_result': alist_parts(result) == (1 if len(cond.ops) == 1 else 0)})
    elif k in ('Var', 'BoolVal'):
        out.update({'other_nothing': alist_len(result) == 0})
    return out


class C14y_implied_2(Contract):
    """And / Or with 2 operands (and Not, Compare, other nodes)"""
    target = 'fpy2.analysis.format_infer.analysis:_FormatInferInstance._implied'
    params = {'self': '_FormatInferInstance', 'cond': 'Not | And | Or | Compare | Var | BoolVal', 'truth': 'bool'}
    overrides = {'cond.args@Not': 'tuple[Key[Expr]]',
                 'cond.args@And': 'tuple[Key[Expr], Key[Expr]]',
                 'cond.args@Or': 'tuple[Key[Expr], Key[Expr]]'}
    split = ['cond']
    returns = 'AbsList'
    properties = ['C14']
    note = ('bounded in the arity of And / Or (2 operands; C14y_implied_1 / _3: 1 and 3); Var / BoolVal stand for '
            'every node class that is none of Not / And / Or / Compare; axioms = defining equations of holds / wf_cond / size')

    def pre(self, cond, truth):
        return {'wf': wf_cond(cond)}

    def axioms(self, cond, truth):
        return _implied_axioms(cond)

    def decreases(self, cond, truth):
        return (size(cond),)

    def post(self, cond, truth, result):
        return _implied_post(cond, truth, result)


class C14y_implied_compare(Contract):
    """interface of the leaf as `_implied` uses it"""
    target = 'fpy2.analysis.format_infer.analysis:_FormatInferInstance._implied_compare'
    params = {'self': '_FormatInferInstance', 'cond': 'Compare', 'truth': 'bool'}
    returns = 'AbsList'
    properties = ['C14']

    def pre(self, cond, truth):
        return {'one_op': len(cond.ops) == 1, 'arity': len(cond.args) == 2, 'wf': wf_cond(cond)}

    def post(self, cond, truth, result):
        return {'ok': alist_all(ref_ok, result),
                'implied': implies(holds(cond) == truth, alist_all(ref_holds, result))}
