"""
C14 part (4b): the recursion of branch refinement, `_FormatInferInstance._implied(cond, truth)`.

Statement (property C14): for every valuation of the variables under which `cond` evaluates to `truth`, every
refinement (d, fmt) returned holds: the value of the variable defined by d is a member of fmt.

    pre    wf_cond(cond)
    post   alist_all(ref_ok, result)                                  (every fmt is well-formed, on the grid)
           holds(cond) == truth  ==>  alist_all(ref_holds, result)    (the statement)
           And & not truth, Or & truth, any other node, a comparison chain:  result == []
           Not: the operand's refinements (one recursive result); And & truth / Or & not truth: one recursive
           result per operand, none dropped; Compare with one operator: `_implied_compare`'s list

`holds` / `wf_cond` (spec/c14y_refine.py) are ghost predicates of the node identity whose DEFINING equations for
the node at hand are the `axioms` below.  The node under verification is a real object of class Not / And / Or /
Compare / Var / BoolVal (split); its operands are opaque keys (`Key[Expr]`), so the recursive calls go through THIS
contract (the induction hypothesis: it is applied to the operand, a strict sub-term; `decreases` = the ghost size).
The collected refinements are an abstract list (pyvc/abslist.py): `_implied` only creates `[]`, receives, splices
and returns them.

The operand tuple of And / Or has symbolic length in the code; the comprehension
`[i for a in cond.args for i in self._implied(a, ..)]` needs a concrete outer loop, so the arity is fixed to 1, 2
and 3 operands (three contracts: BOUNDED IN THE ARITY, the induction itself is unbounded in the depth).
"""
from speclib import *
from spec.real import *
from spec.floats import *
from spec.c14 import *
from spec.c14x_refine import *
from spec.c14y_refine import *
from fractions import Fraction


def size(cond):
    """ghost: number of nodes of the expression (termination measure)"""
    return ghost('c14y_size', cond)


def _all_holds(args):
    r = True
    for a in args:
        r = r and holds(a)
    return r


def _any_holds(args):
    r = False
    for a in args:
        r = r or holds(a)
    return r


def _all_wf(args):
    r = True
    for a in args:
        r = r and wf_cond(a)
    return r


def _sum_size(args):
    r = 1
    for a in args:
        r = r + size(a)
    return r


def _implied_axioms(cond):
    k = cls_name(cond)
    if k == 'Not':
        return {'holds_not': holds(cond) == (not holds(cond.args[0])),
                'wf_not': wf_cond(cond) == wf_cond(cond.args[0]),
                'size_not': size(cond) == 1 + size(cond.args[0]) and size(cond.args[0]) >= 1}
    if k == 'And':
        return {'holds_and': holds(cond) == _all_holds(cond.args),
                'wf_and': wf_cond(cond) == _all_wf(cond.args),
                'size_and': size(cond) == _sum_size(cond.args) and _min_size(cond.args)}
    if k == 'Or':
        return {'holds_or': holds(cond) == _any_holds(cond.args),
                'wf_or': wf_cond(cond) == _all_wf(cond.args),
                'size_or': size(cond) == _sum_size(cond.args) and _min_size(cond.args)}
    if k == 'Compare':
        # a well-formed comparison chain has one more operand than operators (what the parser builds)
        return {'wf_compare_arity': implies(wf_cond(cond), len(cond.args) == len(cond.ops) + 1)}
    return {}


def _min_size(args):
    r = True
    for a in args:
        r = r and size(a) >= 1
    return r


def _implied_post(cond, truth, result):
    out = {
        'ok': alist_all(ref_ok, result),
        'implied': implies(holds(cond) == truth, alist_all(ref_holds, result)),
    }
    k = cls_name(cond)
    if k == 'Not':
        out.update({'not_one_result': alist_parts_is(result, 1)})
    elif k == 'And':
        out.update({'and_false_nothing': implies(not truth, alist_len(result) == 0),
                    'and_true_all_operands': alist_parts_is(result, len(cond.args) if truth else 0)})
    elif k == 'Or':
        out.update({'or_true_nothing': implies(truth, alist_len(result) == 0),
                    'or_false_all_operands': alist_parts_is(result, 0 if truth else len(cond.args))})
    elif k == 'Compare':
        out.update({'chain_nothing': implies(len(cond.ops) != 1, alist_len(result) == 0),
                    'compare_one_result': alist_parts_is(result, 1 if len(cond.ops) == 1 else 0)})
    elif k in ('Var', 'BoolVal'):
        out.update({'other_nothing': alist_len(result) == 0})
    return out


class C14y_implied_2(Contract):
    """And / Or with 2 operands (and Not, Compare, other nodes)"""
    target = 'fpy2.analysis.format_infer.analysis:_FormatInferInstance._implied'
    params = {'self': '_FormatInferInstance', 'cond': 'Not | And | Or | Compare | Var | BoolVal', 'truth': 'bool'}
    overrides = {'cond.args@Not': 'tuple[Key[Expr]]',
                 'cond.args@And': 'tuple[Key[Expr], Key[Expr]]',
                 'cond.args@Or': 'tuple[Key[Expr], Key[Expr]]'}
    split = ['cond']
    returns = 'AbsList'
    properties = ['C14']
    note = ('bounded in the arity of And / Or (2 operands; C14y_implied_1 / _3: 1 and 3); Var / BoolVal stand for '
            'every node class that is none of Not / And / Or / Compare; axioms = defining equations of holds / wf_cond / size')

    def pre(self, cond, truth):
        return {'wf': wf_cond(cond)}

    def axioms(self, cond, truth):
        return _implied_axioms(cond)

    def decreases(self, cond, truth):
        return (size(cond),)

    def post(self, cond, truth, result):
        return _implied_post(cond, truth, result)


class C14y_implied_1(Contract):
    """And / Or with 1 operand"""
    target = 'fpy2.analysis.format_infer.analysis:_FormatInferInstance._implied'
    params = {'self': '_FormatInferInstance', 'cond': 'And | Or', 'truth': 'bool'}
    overrides = {'cond.args@And': 'tuple[Key[Expr]]', 'cond.args@Or': 'tuple[Key[Expr]]'}
    split = ['cond']
    returns = 'AbsList'
    properties = ['C14']
    note = 'bounded in the arity of And / Or (1 operand); see C14y_implied_2'

    def pre(self, cond, truth):
        return {'wf': wf_cond(cond)}

    def axioms(self, cond, truth):
        return _implied_axioms(cond)

    def decreases(self, cond, truth):
        return (size(cond),)

    def post(self, cond, truth, result):
        return _implied_post(cond, truth, result)


class C14y_implied_3(Contract):
    """And / Or with 3 operands"""
    target = 'fpy2.analysis.format_infer.analysis:_FormatInferInstance._implied'
    params = {'self': '_FormatInferInstance', 'cond': 'And | Or', 'truth': 'bool'}
    overrides = {'cond.args@And': 'tuple[Key[Expr], Key[Expr], Key[Expr]]',
                 'cond.args@Or': 'tuple[Key[Expr], Key[Expr], Key[Expr]]'}
    split = ['cond']
    returns = 'AbsList'
    properties = ['C14']
    note = 'bounded in the arity of And / Or (3 operands); see C14y_implied_2'

    def pre(self, cond, truth):
        return {'wf': wf_cond(cond)}

    def axioms(self, cond, truth):
        return _implied_axioms(cond)

    def decreases(self, cond, truth):
        return (size(cond),)

    def post(self, cond, truth, result):
        return _implied_post(cond, truth, result)


# ---------------------------------------------------------------------------
# the leaf `_implied_compare(cond, truth)` under the SAME statement (interface used by `_implied`), verified against
# the code for one comparison operator and the operand shapes
#     (Var, literal)   (literal, Var)   and every other pair (Var, Var / literal, literal / BoolVal ..: nothing is returned)
# The literal is a `Rational` node p/q (every RationalVal subclass is read through as_rational() only, those have C06
# contracts); DefineUse is the abstract stand-in DefUseM (spec/c14x_refine.py).  Defining equations (axioms):
#     holds(Compare([op], [x, c]))   == val_cmp(op, def(x), c)          wf_cond(..) == the leaf preconditions
#     holds(Compare([op], [c, x]))   == val_cmp(swap(op), def(x), c)

def _leaf_wf(inst, x, y):
    """the preconditions of the leaf lemmas (contracts/c14x_refine.py `_cmp_pre`) for the variable use x and the literal y"""
    if y.q == 0:
        return False                    # Fraction(p, 0) raises: not a literal
    g = GRID()
    d = map_at(inst.type_info.def_use.use_to_def, x)
    c = Fraction(y.p, y.q)
    return ((x in inst.type_info.def_use.use_to_def) and (not logb_def(d)) and val_ok(d, g)
            and g <= 0 and g <= lit_exp(c))


def _leaf_holds(inst, x, y, opname):
    g = GRID()
    d = map_at(inst.type_info.def_use.use_to_def, x)
    return val_cmp(opname, d, Fraction(y.p, y.q), g)


def op_name(op):
    """the member name of a (symbolic) CompareOp as a concrete string: forks the path over the six members"""
    for nm in ('LT', 'LE', 'GE', 'GT', 'EQ'):
        if op.name == nm:
            return nm
    return 'NE'


def _compare_axioms(inst, cond):
    a = cond.args[0]
    b = cond.args[1]
    opname = op_name(cond.ops[0])
    if cls_name(a) == 'Var' and cls_name(b) == 'Rational':
        if b.q == 0:
            return {'wf_var_lit': not wf_cond(cond)}
        return {'wf_var_lit': wf_cond(cond) == _leaf_wf(inst, a, b),
                'holds_var_lit': holds(cond) == _leaf_holds(inst, a, b, opname)}
    if cls_name(a) == 'Rational' and cls_name(b) == 'Var':
        if a.q == 0:
            return {'wf_lit_var': not wf_cond(cond)}
        return {'wf_lit_var': wf_cond(cond) == _leaf_wf(inst, b, a),
                'holds_lit_var': holds(cond) == _leaf_holds(inst, b, a, swap_name(opname))}
    return {}


class C14y_implied_compare(Contract):
    """`cond` (one comparison) has outcome `truth`  ==>  every refinement returned holds"""
    target = 'fpy2.analysis.format_infer.analysis:_FormatInferInstance._implied_compare'
    params = {'self': '_FormatInferInstance', 'cond': 'Compare', 'truth': 'bool'}
    overrides = {'self.type_info.def_use': 'DefUseM',
                 'cond.ops': 'tuple[CompareOp]',
                 'cond.args': 'tuple[Var | Rational | BoolVal, Var | Rational | BoolVal]'}
    split = ['truth']
    returns = 'AbsList'
    no_use = ['Rational_as_rational']
    properties = ['C14']
    # 'local': used modularly only by contracts of contracts.c14y* (the C14x leaf lemmas run the code of `_implied_compare`)
    options = {'key_attrs': 'spec.c14x_refine:KEY_ATTRS', 'light_axioms': True, 'local': 'contracts.c14y'}
    note = ('verified for the operand shapes (Var, Rational), (Rational, Var) and the pairs over Var / Rational / BoolVal that '
            'return nothing (BoolVal stands for every class that is neither Var nor RationalVal); `_implied_logb` is excluded '
            'by wf_cond (not_logb), as in the leaf lemmas; axioms = defining equations of holds / wf_cond for a comparison')

    def pre(self, cond, truth):
        return {'one_op': len(cond.ops) == 1, 'arity': len(cond.args) == 2, 'wf': wf_cond(cond)}

    def axioms(self, cond, truth):
        return _compare_axioms(self, cond)

    def post(self, cond, truth, result):
        return {'ok': alist_all(ref_ok, result),
                'implied': implies(holds(cond) == truth, alist_all(ref_holds, result)),
                'at_most_one': alist_len(result) <= 1}
