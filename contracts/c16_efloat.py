from speclib import *
from spec.real import *
from spec.floats import *
from spec.c16 import *


class EFloatFormat_decode(Contract):
    target = 'fpy2.number.context.efloat:EFloatFormat.decode'
    params = {'self': 'EFloatFormat', 'x': 'int'}
    returns = 'Float'
    properties = ['C16']
    options = {'split_heavy': True}

    def post(self, x, result):
        r = result
        e = ef_ebits(self, x)
        mb = ef_mbits(self, x)
        fin = not ef_is_nan(self, x) and not ef_is_inf(self, x)
        return {
            # B1: the value the published layout assigns to the word
            'B1_sign': r._real._s == ef_sbit(self, x),
            'B1_nan': r._isnan == ef_is_nan(self, x),
            'B1_inf': r._isinf == ef_is_inf(self, x),
            'B1_sub_c': implies(fin and e == 0, r._real._c == mb),
            'B1_sub_exp': implies(fin and e == 0, r._real._exp == ef_expmin(self)),
            'B1_norm_c': implies(fin and e != 0, r._real._c == pow2(ef_m(self)) + mb),
            'B1_norm_exp': implies(fin and e != 0, r._real._exp == ef_expmin(self) + e - 1),
        }

    def raises(self, x):
        return {'TypeError': x < 0 or x >= pow2(self.nbits)}


class EFloatFormat_representable_in(Contract):
    target = 'fpy2.number.context.efloat:EFloatFormat.representable_in'
    params = {'self': 'EFloatFormat', 'x': 'Float'}
    returns = 'bool'
    properties = ['C16']
    note = 'special values and zeros only (finite non-zero members need the MPBFloatFormat contracts: not covered)'
    # written before MPBFloatFormat had contracts: the bounded format underneath is inlined (its contract assumes
    # `mpbfl_bounds`, which nothing establishes for EFloatFormat._mpb_fmt yet)
    no_use = ['MPBFloatFormat_representable_in', 'MPBFloatFormat_normalize', 'MPBFloatFormat_to_ordinal', 'MPBFloatFormat_from_ordinal',
              'MPBFloatFormat_minval', 'MPBFloatFormat_maxval', 'MPBFloatFormat_infval']

    def pre(self, x):
        return {'special_or_zero': x._isnan or x._isinf or x._real._c == 0}

    def post(self, x, result):
        nk = self.nan_kind.name
        return {
            # B4: representable <=> some bit pattern decodes to it (EFloatFormat_decode#B1_nan / #B1_inf:
            # every valid format with nan_kind != NONE has a NaN pattern, with enable_inf an infinity pattern)
            'B4_nan': implies(x._isnan, result == ef_has_nan(self)),
            'B4_inf': implies(x._isinf and not x._isnan, result == self.enable_inf),
            # +0 is the all-zero word; -0 is the sign-only word unless that word is the NaN (NEG_ZERO)
            'B4_zero': implies(fl_finite(x) and x._real._c == 0, result == (not (x._real._s and nk == 'NEG_ZERO'))),
        }

    def raises(self, x):
        return {}


class EFloatFormat_encode(Contract):
    target = 'fpy2.number.context.efloat:EFloatFormat.encode'
    params = {'self': 'EFloatFormat', 'x': 'Float'}
    returns = 'int'
    properties = ['C16']
    # unpacking the three-field word (s << nbits-1 | e << m | mbits) with symbolic widths does not go through the
    # solver (DESIGN A7): bounded fall-back for the path-queries that neither prove nor refute, every width / exponent <= 12, eoffset symbolic
    options = {'split_heavy': True, 'bounded_fallback': 12, 'bounded_ms': 60000}
    note = 'special values and zeros only (finite non-zero members need the MPBFloatFormat contracts: not covered)'
    # written before MPBFloatFormat had contracts: the bounded format underneath is inlined (its contract assumes
    # `mpbfl_bounds`, which nothing establishes for EFloatFormat._mpb_fmt yet)
    no_use = ['MPBFloatFormat_representable_in', 'MPBFloatFormat_normalize', 'MPBFloatFormat_to_ordinal', 'MPBFloatFormat_from_ordinal',
              'MPBFloatFormat_minval', 'MPBFloatFormat_maxval', 'MPBFloatFormat_infval']

    def pre(self, x):
        return {'special_or_zero': x._isnan or x._isinf or x._real._c == 0}

    def post(self, x, result):
        inf = x._isinf and not x._isnan
        fin = fl_finite(x)
        return {
            'range': 0 <= result and result < pow2(self.nbits),
            # B2: decoding the word gives back the class, and the sign for infinities and zeros
            'B2_nan': implies(x._isnan, ef_is_nan(self, result)),
            'B2_inf': implies(inf, ef_is_inf(self, result) and not ef_is_nan(self, result)),
            'B2_inf_sign': implies(inf, ef_sbit(self, result) == x._real._s),
            'B2_zero': implies(fin, not ef_is_nan(self, result) and not ef_is_inf(self, result)
                               and ef_ebits(self, result) == 0 and ef_mbits(self, result) == 0),
            'B2_zero_sign': implies(fin, ef_sbit(self, result) == x._real._s),
        }

    def raises(self, x):
        nk = self.nan_kind.name
        # B4: encodable <=> some pattern decodes to it
        return {'ValueError': (x._isnan and not ef_has_nan(self)) or (x._isinf and not x._isnan and not self.enable_inf)
                              or (fl_finite(x) and x._real._s and nk == 'NEG_ZERO')}
