"""
C05 contracts for fpy2/number/number/floats.py: Float values behave as the extended reals
(Q u {+inf, -inf, NaN}) they denote, with IEEE 754 rules for the special values and signed zeros.
Context-carrying constructors are verified for ctx=None (exact values); representability under a
context is property C16.
"""
from speclib import *
from spec.real import *
from spec.floats import *
from spec.c05 import *


# ---------------------------------------------------------------------------
# unary operators

class Float___neg__(Contract):
    target = 'fpy2.number.number.floats:Float.__neg__'
    params = {'self': 'Float'}
    returns = 'Float'
    properties = ['C05']

    def post(self, result):
        r = result
        return {
            'fresh': not same_obj(r, self),
            'wf': r._real._c >= 0 and not (r._isinf and r._isnan),
            'class': r._isnan == self._isnan and r._isinf == self._isinf,
            'sign': r._real._s == (not self._real._s),
            'magnitude': t_mag_eq(trip(r), trip(self)),
            'encoding': fl_same_encoding(r, self),
            'no_ctx': r._ctx is None,
        }

    def raises(self):
        return {}


class Float___pos__(Contract):
    target = 'fpy2.number.number.floats:Float.__pos__'
    params = {'self': 'Float'}
    returns = 'Float'
    properties = ['C05']

    def post(self, result):
        r = result
        return {
            'fresh': not same_obj(r, self),
            'wf': r._real._c >= 0 and not (r._isinf and r._isnan),
            'class': r._isnan == self._isnan and r._isinf == self._isinf,
            # +x == x: same sign, same value
            'sign': r._real._s == self._real._s,
            'magnitude': t_mag_eq(trip(r), trip(self)),
            'no_ctx': r._ctx is None,
        }

    def raises(self):
        return {}


class Float___abs__(Contract):
    target = 'fpy2.number.number.floats:Float.__abs__'
    params = {'self': 'Float'}
    returns = 'Float'
    properties = ['C05']

    def post(self, result):
        r = result
        return {
            'fresh': not same_obj(r, self),
            'wf': r._real._c >= 0 and not (r._isinf and r._isnan),
            'class': r._isnan == self._isnan and r._isinf == self._isinf,
            'sign': r._real._s == False,
            'magnitude': t_mag_eq(trip(r), trip(self)),
            'no_ctx': r._ctx is None,
        }

    def raises(self):
        return {}


# ---------------------------------------------------------------------------
# conversions from the other numeric types (ctx=None: the value is exact)

class Float_from_real(Contract):
    target = 'fpy2.number.number.floats:Float.from_real'
    params = {'x': 'RealFloat', 'ctx': 'None', 'checked': 'bool'}
    returns = 'Float'
    properties = ['C05']

    def post(x, ctx, checked, result):
        r = result
        return {
            'fresh_real': not same_obj(r._real, x),
            'finite': not r._isnan and not r._isinf,
            'wf': r._real._c >= 0,
            'sign': r._real._s == x._s,
            'value': t_mag_eq(trip(r), trip(x)),
            'encoding': r._real._exp == x._exp and r._real._c == x._c,
            'no_ctx': r._ctx is None,
        }

    def raises(x, ctx, checked):
        return {}


class Float_from_int(Contract):
    target = 'fpy2.number.number.floats:Float.from_int'
    params = {'x': 'int', 'ctx': 'None', 'checked': 'bool'}
    returns = 'Float'
    properties = ['C05']

    def post(x, ctx, checked, result):
        r = result
        return {
            'finite': not r._isnan and not r._isinf,
            'wf': r._real._c >= 0,
            'value': t_is_int(trip(r), x),
            'sign': r._real._s == (x < 0),
            'encoding': r._real._exp == 0 and r._real._c == abs(x),
            'no_ctx': r._ctx is None,
        }

    def raises(x, ctx, checked):
        return {}


class Float_from_float(Contract):
    target = 'fpy2.number.number.floats:Float.from_float'
    params = {'x': 'float', 'ctx': 'None', 'checked': 'bool'}
    returns = 'Float'
    properties = ['C05']

    def post(x, ctx, checked, result):
        r = result
        return {
            'wf': r._real._c >= 0 and not (r._isinf and r._isnan),
            # NaN -> NaN, +-inf -> +-inf, finite -> exactly the binary64 value; the sign bit is always kept
            'nan': r._isnan == f64_isnan(x),
            'inf': r._isinf == f64_isinf(x),
            'sign': r._real._s == f64_sign(x),
            'value': implies(f64_finite(x), t_mag_eq(trip(r), trip(x))),
            'encoding': implies(f64_finite(x), r._real._exp == f64_exp(x) and r._real._c == f64_c(x)),
            'no_ctx': r._ctx is None,
        }

    def raises(x, ctx, checked):
        return {}


class Float_from_rational(Contract):
    target = 'fpy2.number.number.floats:Float.from_rational'
    params = {'x': 'Fraction', 'ctx': 'None', 'checked': 'bool'}
    returns = 'Float'
    properties = ['C05']

    def post(x, ctx, checked, result):
        r = result
        return {
            'finite': not r._isnan and not r._isinf,
            'wf': r._real._c >= 0,
            'value': t_val_q(trip(r)) == x,
            'sign': r._real._s == (x < 0),
            'encoding': r._real._exp == 1 - bl(x.denominator) and r._real._c == abs(x.numerator),
            'no_ctx': r._ctx is None,
        }

    def raises(x, ctx, checked):
        return {'ValueError': not q_dyadic(x)}


# ---------------------------------------------------------------------------
# conversions to native types (H5: exactly the value, or raise)

class Float___int__(Contract):
    target = 'fpy2.number.number.floats:Float.__int__'
    params = {'self': 'Float'}
    returns = 'int'
    properties = ['C05']

    def post(self, result):
        return {'value': t_is_int(trip(self), result)}

    def raises(self):
        return {'ValueError': self._isnan or self._isinf or not t_integral(trip(self))}


class Float_as_rational(Contract):
    target = 'fpy2.number.number.floats:Float.as_rational'
    params = {'self': 'Float'}
    returns = 'Fraction'
    properties = ['C05']

    def post(self, result):
        return {'value': result == t_val_q(trip(self))}

    def raises(self):
        return {'ValueError': self._isnan or self._isinf}


# ---------------------------------------------------------------------------
# predicates

class Float_is_zero(Contract):
    target = 'fpy2.number.number.floats:Float.is_zero'
    params = {'self': 'Float'}
    returns = 'bool'
    properties = ['C05']

    def post(self, result):
        return {'iff': result == (fl_finite(self) and self._real._c == 0)}

    def raises(self):
        return {}


class Float_is_positive(Contract):
    target = 'fpy2.number.number.floats:Float.is_positive'
    params = {'self': 'Float'}
    returns = 'bool'
    properties = ['C05']

    def post(self, result):
        # D(self) > 0 : +inf, or finite nonzero with a clear sign; never NaN
        return {'iff': result == xcmp3(self, 0)[2]}

    def raises(self):
        return {}


class Float_is_negative(Contract):
    target = 'fpy2.number.number.floats:Float.is_negative'
    params = {'self': 'Float'}
    returns = 'bool'
    properties = ['C05']

    def post(self, result):
        return {'iff': result == xcmp3(self, 0)[0]}

    def raises(self):
        return {}


class Float_is_integer(Contract):
    target = 'fpy2.number.number.floats:Float.is_integer'
    params = {'self': 'Float'}
    returns = 'bool'
    properties = ['C05']

    def post(self, result):
        return {'iff': result == (fl_finite(self) and t_integral(trip(self)))}

    def raises(self):
        return {}


class Float_is_finite(Contract):
    target = 'fpy2.number.number.floats:Float.is_finite'
    params = {'self': 'Float'}
    returns = 'bool'
    properties = ['C05']

    def post(self, result):
        return {'iff': result == fl_finite(self)}

    def raises(self):
        return {}


class Float_is_nonzero(Contract):
    target = 'fpy2.number.number.floats:Float.is_nonzero'
    params = {'self': 'Float'}
    returns = 'bool'
    properties = ['C05']

    def post(self, result):
        return {'iff': result == (fl_finite(self) and self._real._c != 0)}

    def raises(self):
        return {}


class Float_is_nar(Contract):
    target = 'fpy2.number.number.floats:Float.is_nar'
    params = {'self': 'Float'}
    returns = 'bool'
    properties = ['C05']

    def post(self, result):
        return {'iff': result == (self._isinf or self._isnan)}

    def raises(self):
        return {}
