"""
C05 contracts for fpy2/number/number/floats.py: Float values behave as the extended reals
(Q u {+inf, -inf, NaN}) they denote, with IEEE 754 rules for the special values and signed zeros.
Context-carrying constructors are verified for ctx=None (exact values); representability under a
context is property C16.
"""
from speclib import *
from spec.real import *
from spec.floats import *
from spec.c05 import *


# ---------------------------------------------------------------------------
# unary operators

class Float___neg__(Contract):
    target = 'fpy2.number.number.floats:Float.__neg__'
    params = {'self': 'Float'}
    returns = 'Float'
    properties = ['C05']

    def post(self, result):
        r = result
        return {
            'fresh': not same_obj(r, self),
            'wf': r._real._c >= 0 and not (r._isinf and r._isnan),
            'class': r._isnan == self._isnan and r._isinf == self._isinf,
            'sign': r._real._s == (not self._real._s),
            'magnitude': t_mag_eq(trip(r), trip(self)),
            'encoding': fl_same_encoding(r, self),
            'no_ctx': r._ctx is None,
        }

    def raises(self):
        return {}


class Float___pos__(Contract):
    target = 'fpy2.number.number.floats:Float.__pos__'
    params = {'self': 'Float'}
    returns = 'Float'
    properties = ['C05']

    def post(self, result):
        r = result
        return {
            'fresh': not same_obj(r, self),
            'wf': r._real._c >= 0 and not (r._isinf and r._isnan),
            'class': r._isnan == self._isnan and r._isinf == self._isinf,
            # +x == x: same sign, same value
            'sign': r._real._s == self._real._s,
            'magnitude': t_mag_eq(trip(r), trip(self)),
            'no_ctx': r._ctx is None,
        }

    def raises(self):
        return {}


class Float___abs__(Contract):
    target = 'fpy2.number.number.floats:Float.__abs__'
    params = {'self': 'Float'}
    returns = 'Float'
    properties = ['C05']

    def post(self, result):
        r = result
        return {
            'fresh': not same_obj(r, self),
            'wf': r._real._c >= 0 and not (r._isinf and r._isnan),
            'class': r._isnan == self._isnan and r._isinf == self._isinf,
            'sign': r._real._s == False,
            'magnitude': t_mag_eq(trip(r), trip(self)),
            'no_ctx': r._ctx is None,
        }

    def raises(self):
        return {}


# ---------------------------------------------------------------------------
# conversions from the other numeric types (ctx=None: the value is exact)

class Float_from_real(Contract):
    target = 'fpy2.number.number.floats:Float.from_real'
    params = {'x': 'RealFloat', 'ctx': 'None', 'checked': 'bool'}
    returns = 'Float'
    properties = ['C05']

    def post(x, ctx, checked, result):
        r = result
        return {
            'fresh_real': not same_obj(r._real, x),
            'finite': not r._isnan and not r._isinf,
            'wf': r._real._c >= 0,
            'sign': r._real._s == x._s,
            'value': t_mag_eq(trip(r), trip(x)),
            'encoding': r._real._exp == x._exp and r._real._c == x._c,
            'no_ctx': r._ctx is None,
        }

    def raises(x, ctx, checked):
        return {}


class Float_from_int(Contract):
    target = 'fpy2.number.number.floats:Float.from_int'
    params = {'x': 'int', 'ctx': 'None', 'checked': 'bool'}
    returns = 'Float'
    properties = ['C05']

    def post(x, ctx, checked, result):
        r = result
        return {
            'finite': not r._isnan and not r._isinf,
            'wf': r._real._c >= 0,
            'value': t_is_int(trip(r), x),
            'sign': r._real._s == (x < 0),
            'encoding': r._real._exp == 0 and r._real._c == abs(x),
            'no_ctx': r._ctx is None,
        }

    def raises(x, ctx, checked):
        return {}


class Float_from_float(Contract):
    target = 'fpy2.number.number.floats:Float.from_float'
    params = {'x': 'float', 'ctx': 'None', 'checked': 'bool'}
    returns = 'Float'
    properties = ['C05']

    def post(x, ctx, checked, result):
        r = result
        out = {
            'wf': r._real._c >= 0 and not (r._isinf and r._isnan),
            # NaN -> NaN, +-inf -> +-inf, finite -> exactly the binary64 value; the sign bit is always kept
            'nan': r._isnan == f64_isnan(x),
            'inf': r._isinf == f64_isinf(x),
            'sign': r._real._s == f64_sign(x),
            'no_ctx': r._ctx is None,
        }
        if f64_finite(x):        # (a Python `if`: callers get unconditional equalities on the finite path)
            out.update({
                'value': t_mag_eq(trip(r), trip(x)),
                'exp': r._real._exp == f64_exp(x),
                'c': r._real._c == f64_c(x),
            })
        return out

    def raises(x, ctx, checked):
        return {}


class Float_from_rational(Contract):
    target = 'fpy2.number.number.floats:Float.from_rational'
    params = {'x': 'Fraction', 'ctx': 'None', 'checked': 'bool'}
    returns = 'Float'
    properties = ['C05']

    def post(x, ctx, checked, result):
        r = result
        return {
            'finite': not r._isnan and not r._isinf,
            'wf': r._real._c >= 0,
            'value': t_val_q(trip(r)) == x,
            'sign': r._real._s == (x < 0),
            'encoding': r._real._exp == 1 - bl(x.denominator) and r._real._c == abs(x.numerator),
            'no_ctx': r._ctx is None,
        }

    def raises(x, ctx, checked):
        return {'ValueError': not q_dyadic(x)}


# ---------------------------------------------------------------------------
# conversions to native types (H5: exactly the value, or raise)

class Float___int__(Contract):
    target = 'fpy2.number.number.floats:Float.__int__'
    params = {'self': 'Float'}
    returns = 'int'
    properties = ['C05']

    def post(self, result):
        return {'value': t_is_int(trip(self), result),
                # the same closed form as RealFloat.__int__ (callers name the value by this term: C20 core.split)
                'closed_form': result == t_int_value(trip(self))}

    def raises(self):
        return {'ValueError': self._isnan or self._isinf or not t_integral(trip(self))}


class Float_as_rational(Contract):
    target = 'fpy2.number.number.floats:Float.as_rational'
    params = {'self': 'Float'}
    returns = 'Fraction'
    properties = ['C05']

    def post(self, result):
        return {'value': result == t_val_q(trip(self))}

    def raises(self):
        return {'ValueError': self._isnan or self._isinf}


# ---------------------------------------------------------------------------
# predicates

class Float_is_zero(Contract):
    target = 'fpy2.number.number.floats:Float.is_zero'
    params = {'self': 'Float'}
    returns = 'bool'
    properties = ['C05']

    def post(self, result):
        return {'iff': result == (fl_finite(self) and self._real._c == 0)}

    def raises(self):
        return {}


class Float_is_positive(Contract):
    target = 'fpy2.number.number.floats:Float.is_positive'
    params = {'self': 'Float'}
    returns = 'bool'
    properties = ['C05']

    def post(self, result):
        # D(self) > 0 : +inf, or finite nonzero with a clear sign; never NaN
        return {'iff': result == xcmp3(self, 0)[2]}

    def raises(self):
        return {}


class Float_is_negative(Contract):
    target = 'fpy2.number.number.floats:Float.is_negative'
    params = {'self': 'Float'}
    returns = 'bool'
    properties = ['C05']

    def post(self, result):
        return {'iff': result == xcmp3(self, 0)[0]}

    def raises(self):
        return {}


class Float_is_integer(Contract):
    target = 'fpy2.number.number.floats:Float.is_integer'
    params = {'self': 'Float'}
    returns = 'bool'
    properties = ['C05']

    def post(self, result):
        return {'iff': result == (fl_finite(self) and t_integral(trip(self)))}

    def raises(self):
        return {}


class Float_is_finite(Contract):
    target = 'fpy2.number.number.floats:Float.is_finite'
    params = {'self': 'Float'}
    returns = 'bool'
    properties = ['C05']

    def post(self, result):
        return {'iff': result == fl_finite(self)}

    def raises(self):
        return {}


class Float_is_nonzero(Contract):
    target = 'fpy2.number.number.floats:Float.is_nonzero'
    params = {'self': 'Float'}
    returns = 'bool'
    properties = ['C05']

    def post(self, result):
        return {'iff': result == (fl_finite(self) and self._real._c != 0)}

    def raises(self):
        return {}


class Float_is_nar(Contract):
    target = 'fpy2.number.number.floats:Float.is_nar'
    params = {'self': 'Float'}
    returns = 'bool'
    properties = ['C05']

    def post(self, result):
        return {'iff': result == (self._isinf or self._isnan)}

    def raises(self):
        return {}


# ---------------------------------------------------------------------------
# arithmetic (H1) with the IEEE 754 tables for NaN / infinities / signed zeros

class Float___add__(Contract):
    target = 'fpy2.number.number.floats:Float.__add__'
    params = {'self': 'Float', 'other': 'Float | RealFloat | int | float | Fraction'}
    returns = 'Float'
    properties = ['C05']
    split = ['other']
    options = {'solve_eqs': True}

    def post(self, other, result):
        r = result
        a = trip(self)
        b = trip(other)
        o_nan, o_inf, o_neg = special(other)
        nan_in = self._isnan or o_nan
        inf_minus_inf = self._isinf and o_inf and a[0] != o_neg
        fin = fl_finite(self) and not o_nan and not o_inf
        return {
            'wf': r._real._c >= 0 and not (r._isinf and r._isnan),
            # NaN operand, or inf - inf (invalid): NaN
            'nan': r._isnan == (nan_in or (not nan_in and inf_minus_inf)),
            # an infinite operand otherwise gives that infinity
            'inf': r._isinf == (not nan_in and not inf_minus_inf and (self._isinf or o_inf)),
            'inf_sign': implies(r._isinf, r._real._s == ite(self._isinf, a[0], o_neg)),
            # finite operands: the exact sum, zero sign per IEEE 754 6.3
            'sum': implies(fin, t_is_sum(trip(r), a, b)),
            'zero_sign': implies(fin and r._real._c == 0, r._real._s == (a[2] == 0 and b[2] == 0 and a[0] and b[0])),
            'no_ctx': r._ctx is None,
        }

    def raises(self, other):
        return {'ValueError': (not q_dyadic(other)) if cls_name(other) == 'Fraction' else False}


class Float___mul__(Contract):
    target = 'fpy2.number.number.floats:Float.__mul__'
    params = {'self': 'Float', 'other': 'Float | RealFloat | int | float | Fraction'}
    returns = 'Float'
    properties = ['C05']
    split = ['other']
    options = {'solve_eqs': True}

    def post(self, other, result):
        r = result
        a = trip(self)
        b = trip(other)
        o_nan, o_inf, o_neg = special(other)
        nan_in = self._isnan or o_nan
        o_zero = not o_nan and not o_inf and b[2] == 0
        s_zero = fl_finite(self) and a[2] == 0
        inf_times_zero = (self._isinf and o_zero) or (o_inf and s_zero)
        fin = fl_finite(self) and not o_nan and not o_inf
        return {
            'wf': r._real._c >= 0 and not (r._isinf and r._isnan),
            # NaN operand, or inf * 0 (invalid): NaN
            'nan': r._isnan == (nan_in or inf_times_zero),
            'inf': r._isinf == (not nan_in and not inf_times_zero and (self._isinf or o_inf)),
            # sign of a product (infinite or finite, zero included) is the XOR of the signs
            'sign': implies(not r._isnan, r._real._s == xor(a[0], b[0])),
            'prod': implies(fin, t_is_prod(trip(r), a, b)),
            'no_ctx': r._ctx is None,
        }

    def raises(self, other):
        return {'ValueError': (not q_dyadic(other)) if cls_name(other) == 'Fraction' else False}


class Float___pow__(Contract):
    target = 'fpy2.number.number.floats:Float.__pow__'
    params = {'self': 'Float', 'exponent': 'int'}
    returns = 'Float'
    properties = ['C05']

    def post(self, exponent, result):
        r = result
        k = exponent
        return {
            'wf': r._real._c >= 0 and not (r._isinf and r._isnan),
            # x^0 = 1 for every x (IEEE 754 9.2.1 pown), NaN and infinity included
            'zeroth': implies(k == 0, fl_finite(r) and t_is_int(trip(r), 1) and not r._real._s),
            'nan': implies(k > 0, r._isnan == self._isnan),
            'inf': implies(k > 0, r._isinf == self._isinf),
            'sign': implies(k > 0 and not self._isnan, r._real._s == (self._real._s and fmod(k, 2) == 1)),
            'magnitude': implies(k > 0 and fl_finite(self),
                                 t_mag_eq(trip(r), (False, self._real._exp * k, ipow(self._real._c, k)))),
            'no_ctx': r._ctx is None,
        }

    def raises(self, exponent):
        return {'ValueError': exponent < 0}


# ---------------------------------------------------------------------------
# order (H2)

class Float_compare(Contract):
    target = 'fpy2.number.number.floats:Float.compare'
    params = {'self': 'Float', 'other': 'Float | RealFloat | int | float | Fraction'}
    returns = 'Ordering | None'
    properties = ['C05']
    split = ['other']
    options = {'solve_eqs': True}

    def post(self, other, result):
        lt, eq, gt = xcmp3(self, other)
        return {
            'none_iff_unordered': (result is None) == (not lt and not eq and not gt),
            'less': ord_is(result, 'LESS') == lt,
            'equal': ord_is(result, 'EQUAL') == eq,
            'greater': ord_is(result, 'GREATER') == gt,
        }

    def raises(self, other):
        return {}


class Float___eq__(Contract):
    target = 'fpy2.number.number.floats:Float.__eq__'
    params = {'self': 'Float', 'other': 'Float | RealFloat | int | float | Fraction | None'}
    returns = 'bool'
    properties = ['C05']
    split = ['other']

    def post(self, other, result):
        return {'eq': result == (False if other is None else xcmp3(self, other)[1])}

    def raises(self, other):
        return {}


class Float___lt__(Contract):
    target = 'fpy2.number.number.floats:Float.__lt__'
    params = {'self': 'Float', 'other': 'Float | RealFloat | int | float | Fraction'}
    returns = 'bool'
    properties = ['C05']
    split = ['other']

    def post(self, other, result):
        return {'lt': result == xcmp3(self, other)[0]}

    def raises(self, other):
        return {}


class Float___le__(Contract):
    target = 'fpy2.number.number.floats:Float.__le__'
    params = {'self': 'Float', 'other': 'Float | RealFloat | int | float | Fraction'}
    returns = 'bool'
    properties = ['C05']
    split = ['other']

    def post(self, other, result):
        c = xcmp3(self, other)
        return {'le': result == (c[0] or c[1])}

    def raises(self, other):
        return {}


class Float___gt__(Contract):
    target = 'fpy2.number.number.floats:Float.__gt__'
    params = {'self': 'Float', 'other': 'Float | RealFloat | int | float | Fraction'}
    returns = 'bool'
    properties = ['C05']
    split = ['other']

    def post(self, other, result):
        return {'gt': result == xcmp3(self, other)[2]}

    def raises(self, other):
        return {}


class Float___ge__(Contract):
    target = 'fpy2.number.number.floats:Float.__ge__'
    params = {'self': 'Float', 'other': 'Float | RealFloat | int | float | Fraction'}
    returns = 'bool'
    properties = ['C05']
    split = ['other']

    def post(self, other, result):
        c = xcmp3(self, other)
        return {'ge': result == (c[2] or c[1])}

    def raises(self, other):
        return {}


# ---------------------------------------------------------------------------
# hash (H3): assumed stdlib model  hash(int i) == hash(Fraction(i)) == H(i);  hash(float('inf')) == sys.hash_info.inf == 314159

class Float___hash__(Contract):
    target = 'fpy2.number.number.floats:Float.__hash__'
    params = {'self': 'Float'}
    returns = 'int'
    properties = ['C05']
    note = 'assumed: hash(+-inf) of a Python float is +-sys.hash_info.inf (314159); H as for RealFloat.__hash__'

    def post(self, result):
        return {
            # a finite Float hashes as the rational it denotes (so as the equal int / Fraction / RealFloat)
            'finite': implies(fl_finite(self), result == hashq(t_val_q(trip(self)))),
            # infinities hash as the Python floats +-inf they are equal to
            'inf': implies(self._isinf, result == ite(self._real._s, -314159, 314159)),
        }

    def raises(self):
        return {}


# ---------------------------------------------------------------------------
# normalisation / splitting (H4)

class Float_normalize_n(Contract):
    target = 'fpy2.number.number.floats:Float.normalize'
    params = {'self': 'Float', 'p': 'int | None', 'n': 'int'}
    returns = 'Float'
    properties = ['C05']
    split = ['p']

    def post(self, p, n, result):
        r = result
        out = {
            'wf': r._real._c >= 0 and not (r._isinf and r._isnan),
            'class': r._isnan == self._isnan and r._isinf == self._isinf,
            'sign': r._real._s == self._real._s,
            'value': implies(fl_finite(self), t_mag_eq(trip(r), trip(self))),
            'ctx_kept': same_obj(r._ctx, self._ctx),
        }
        if p is None:
            out.update({'exp_is_n_plus_1': implies(fl_finite(self), r._real._exp == n + 1)})
        else:
            out.update({'above_n': implies(fl_finite(self), r._real._exp > n),
                        'at_most_p_digits': implies(fl_finite(self), bl(r._real._c) <= p)})
        return out

    def raises(self, p, n):
        return {'ValueError': (p is not None and p < 0)
                              or (fl_finite(self) and ((p is not None and not fits_p(self._real, p)) or not on_grid(self._real, n)))}


class Float_normalize_p(Contract):
    target = 'fpy2.number.number.floats:Float.normalize'
    params = {'self': 'Float', 'p': 'int', 'n': 'None'}
    returns = 'Float'
    properties = ['C05']

    def post(self, p, n, result):
        r = result
        return {
            'wf': r._real._c >= 0 and not (r._isinf and r._isnan),
            'class': r._isnan == self._isnan and r._isinf == self._isinf,
            'sign': r._real._s == self._real._s,
            'value': implies(fl_finite(self), t_mag_eq(trip(r), trip(self))),
            'exactly_p_digits': implies(fl_finite(self) and self._real._c != 0, bl(r._real._c) == p),
            'ctx_kept': same_obj(r._ctx, self._ctx),
        }

    def raises(self, p, n):
        return {'ValueError': p < 0 or (fl_finite(self) and not fits_p(self._real, p))}


class Float_split(Contract):
    target = 'fpy2.number.number.floats:Float.split'
    params = {'self': 'Float', 'n': 'int'}
    returns = 'tuple[Float, Float]'
    properties = ['C05']
    no_use = ['RealFloat.split']         # verified against the body of RealFloat.split (inlined)

    def post(self, n, result):
        hi, lo = result
        fin = fl_finite(self)
        return {
            'class': hi._isnan == self._isnan and lo._isnan == self._isnan and hi._isinf == self._isinf and lo._isinf == self._isinf,
            'sign': hi._real._s == self._real._s and lo._real._s == self._real._s,
            'wf': hi._real._c >= 0 and lo._real._c >= 0,
            # hi + lo == self exactly; hi holds only digits above n, lo only digits at or below n
            'sum': implies(fin, t_is_sum(trip(self), trip(hi), trip(lo))),
            'hi_above': implies(fin, hi._real._exp > n),
            'lo_below': implies(fin, lo._real._c == 0 or e_of(lo._real) <= n),
            'ctx_kept': same_obj(hi._ctx, self._ctx) and same_obj(lo._ctx, self._ctx),
        }

    def raises(self, n):
        return {}


class Float_same_value(Contract):
    target = 'fpy2.number.number.floats:same_value'
    params = {'a': 'Float | None', 'b': 'Float | None'}
    returns = 'bool'
    properties = ['C05']
    split = ['a', 'b']

    def post(a, b, result):
        if a is None or b is None:
            return {'none': result == (a is None and b is None)}
        nar = a._isnan or a._isinf or b._isnan or b._isinf
        return {
            # same class and sign for NaN / infinities; same value and sign (any encoding) for finite values
            'special': implies(nar, result == (a._isnan == b._isnan and a._isinf == b._isinf and a._real._s == b._real._s)),
            'finite': implies(not nar, result == t_same(trip(a), trip(b))),
        }

    def raises(a, b):
        return {}
