"""C01 context layer: MPSFloatContext (precision pmax, subnormals below emin)."""
from speclib import *
from spec.real import *
from spec.floats import *
from spec.ctx import *
from fpy2.number.round import RoundingMode


class MPSFloatFormat_representable_in(Contract):
    target = 'fpy2.number.context.mps_float:MPSFloatFormat.representable_in'
    params = {'self': 'MPSFloatFormat', 'x': 'RealFloat | Float'}
    returns = 'bool'
    properties = ['C01', 'C16']

    def pre(self, x):
        return {'pmax': self.pmax >= 1}

    def post(self, x, result):
        nan = op_nan(x)
        inf = op_inf(x)
        xr = op_real(x)
        return {
            'nan': implies(nan, result == self.enable_nan),
            'inf': implies(inf, result == self.enable_inf),
            'finite': implies(not nan and not inf, result == mps_member_real(self.pmax, self.emin, xr)),
        }

    def raises(self, x):
        return {}


class MPSFloatContext__round_at(Contract):
    target = 'fpy2.number.context.mps_float:MPSFloatContext._round_at'
    params = {'self': 'MPSFloatContext', 'x': 'RealFloat | Float', 'n': 'int | None', 'exact': 'bool'}
    returns = 'Float'
    properties = ['C01']
    binds = {'result._ctx': 'self'}

    def pre(self, x, n, exact):
        return {'deterministic': self.num_randbits is not None and self.num_randbits == 0}

    def post(self, x, n, exact, result):
        return mps_post(self, x, n, exact, result)

    def raises(self, x, n, exact):
        return mps_raises(self, x, n, exact)


class MPSFloatContext_round(Contract):
    target = 'fpy2.number.context.mps_float:MPSFloatContext.round'
    params = {'self': 'MPSFloatContext', 'x': 'RealFloat | Float', 'exact': 'bool'}
    returns = 'Float'
    properties = ['C01']
    binds = {'result._ctx': 'self'}

    def pre(self, x, exact):
        return {'deterministic': self.num_randbits is not None and self.num_randbits == 0}

    def post(self, x, exact, result):
        return mps_post(self, x, None, exact, result)

    def raises(self, x, exact):
        return mps_raises(self, x, None, exact)


class MPSFloatContext_round_at(Contract):
    target = 'fpy2.number.context.mps_float:MPSFloatContext.round_at'
    params = {'self': 'MPSFloatContext', 'x': 'RealFloat | Float', 'n': 'int', 'exact': 'bool'}
    returns = 'Float'
    properties = ['C01']
    binds = {'result._ctx': 'self'}

    def pre(self, x, n, exact):
        return {'deterministic': self.num_randbits is not None and self.num_randbits == 0}

    def post(self, x, n, exact, result):
        return mps_post(self, x, n, exact, result)

    def raises(self, x, n, exact):
        return mps_raises(self, x, n, exact)


class MPSFloatContext_round_integer(Contract):
    target = 'fpy2.number.context.context:Context.round_integer'
    params = {'self': 'MPSFloatContext', 'x': 'RealFloat | Float'}
    returns = 'Float'
    properties = ['C01']
    inline = True            # one contract per receiver class; never used modularly
    binds = {'result._ctx': 'self'}

    def pre(self, x):
        return {'deterministic': self.num_randbits is not None and self.num_randbits == 0}

    def post(self, x, result):
        return mps_post(self, x, -1, False, result)

    def raises(self, x):
        return mps_raises(self, x, -1, False)


class MPSFloatContext___init__(Contract):
    target = 'fpy2.number.context.mps_float:MPSFloatContext.__init__'
    params = {'self': 'MPSFloatContext', 'pmax': 'int', 'emin': 'int', 'rm': 'RoundingMode', 'num_randbits': 'int | None',
              'rng': 'RNG | None', 'enable_nan': 'bool', 'enable_inf': 'bool',
              'nan_value': 'Float | None', 'inf_value': 'Float | None'}
    returns = 'None'
    properties = ['C01']
    binds = {'self.nan_value': 'nan_value', 'self.inf_value': 'inf_value', 'self.rng': 'rng'}

    def post(self, pmax, emin, rm, num_randbits, rng, enable_nan, enable_inf, nan_value, inf_value, result):
        return {
            'inv_pmax': self.pmax >= 1,
            'pmax': self.pmax == pmax,
            'emin': self.emin == emin,
            'rm': self.rm.name == rm.name,
            'num_randbits': (self.num_randbits is None) if num_randbits is None
                            else (self.num_randbits is not None and self.num_randbits == num_randbits),
            'enable_nan': self.enable_nan == enable_nan,
            'enable_inf': self.enable_inf == enable_inf,
            'fmt': self._fmt.pmax == pmax and self._fmt.emin == emin
                   and self._fmt.enable_nan == enable_nan and self._fmt.enable_inf == enable_inf,
            'nan_value_member': mps_member(pmax, emin, enable_nan, enable_inf, nan_value)
                                if (nan_value is not None and not enable_nan) else True,
            'inf_value_member': mps_member(pmax, emin, enable_nan, enable_inf, inf_value)
                                if (inf_value is not None and not enable_inf) else True,
        }

    def raises(self, pmax, emin, rm, num_randbits, rng, enable_nan, enable_inf, nan_value, inf_value):
        bad_nan = (not enable_nan and not mps_member(pmax, emin, enable_nan, enable_inf, nan_value)) if nan_value is not None else False
        bad_inf = (not enable_inf and not mps_member(pmax, emin, enable_nan, enable_inf, inf_value)) if inf_value is not None else False
        return {
            'TypeError': pmax < 1,
            'ValueError': pmax >= 1 and (bad_nan or bad_inf),
        }
