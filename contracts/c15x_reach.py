"""
C15 extension / D4: `Reachability.analyze` in the configuration of the decorator (check_all_reachable=True,
check_no_fallthrough=True) and the decorator flow itself.
"""
from speclib import *
from spec.c15 import *
from spec.c15x import *


class Reachability_analyze_checked(Contract):
    target = 'fpy2.analysis.reachability:Reachability.analyze'
    params = {'func': 'FuncDef', 'check_all_reachable': 'bool', 'check_no_fallthrough': 'bool', 'check_single_exit': 'bool'}
    overrides = {'func.body': 'Key[StmtBlock]'}
    returns = 'ReachabilityAnalysis'
    properties = ['C15']
    inline = True
    may_raise = ['ReachabilityError']
    options = {'local_types': {'unreachable': 'set[Stmt]'}, 'loop_modifies': {0: ['unreachable']}}
    note = ('every combination of the three flags (the decorator passes all_reachable and no_fallthrough): a NORMAL RETURN '
            'means the requested assertions hold of the returned analysis -- no statement recorded in has_entry is '
            'unreachable, the body cannot complete normally.  (That it raises ONLY then is stated by Reachability_analyze '
            'for the fallthrough check alone.)  The loop over has_entry.items() by invariant.')

    def inv0(func, analysis, unreachable, done):
        return {'collected': forall_keys('Stmt', lambda k: (k in unreachable) == ((k in done) and (k in analysis.has_entry) and not analysis.has_entry[k]))}

    def post(func, check_all_reachable, check_no_fallthrough, result):
        return {
            'fallthrough': result.has_fallthrough == cc_block(func.body, True),
            'no_fallthrough': implies(check_no_fallthrough, not cc_block(func.body, True)),
            'all_reachable': implies(check_all_reachable,
                                     forall_keys('Stmt', lambda k: not ((k in result.has_entry) and not result.has_entry[k]))),
        }

