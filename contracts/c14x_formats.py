"""
C14 part (3): AbstractFormat.from_format, AbstractFormat.format, round_is_identity / _all_representable_in.

Lemmas run the REAL code from /repo inside `post` (`A = AbstractFormat.from_format(fmt)`); the value sets of the
format families are the C16 predicates (spec/c16.py) that the `representable_in` contracts establish.
"""
from speclib import *
from spec.real import *
from spec.floats import *
from spec.c14 import *
from spec.c16 import *
from spec.c14x_formats import *
from fpy2.analysis.format_infer.format import AbstractFormat


# ---------------------------------------------------------------------------
# bridging: witness-style membership (spec/c14.py) <-> representation-independent membership

class C14x_mem_fin_rmem(Lemma):
    """a witness representation (e >= A.exp, bl(c) <= A.prec, within the bounds) is a member in the
    representation-independent sense; special values and zeros coincide by definition"""
    params = {'A': 'AbstractFormat', 'v': 'Float'}
    overrides = {'A.prec': 'int | PosInf', 'A.exp': 'int | NegInf',
                 'A.pos_bound': 'RealFloat | PosInf', 'A.neg_bound': 'RealFloat | NegInf'}
    split = ['A.prec', 'A.exp', 'A.pos_bound', 'A.neg_bound']
    properties = ['C14']

    def pre(A, v):
        g = GRID()
        return {'wf': wf(A), 'grid': grid_ok_fmt(A, g) and g <= v._real._exp, 'mem': mem(v, A, g)}

    def post(A, v):
        g = GRID()
        r = v._real
        return {'quantum': implies(nz(v), quantum_ok(r, A)),
                'digits': implies(nz(v), digits_ok(r._c, A)),
                'rmem': rmem(v, A, g)}


class C14x_from_format_MPFixedFormat(Lemma):
    params = {'fmt': 'MPFixedFormat', 'v': 'Float'}
    properties = ['C14']

    def pre(fmt, v):
        return {}

    def post(fmt, v):
        g = GRID()
        A = AbstractFormat.from_format(fmt)
        out = wf_clauses(A, 'wf')
        out.update(specials_eq(A, fmt.enable_nan, fmt.enable_inf, fmt.enable_inf, fmt.enable_neg_zero, 'sp'))
        out.update({
            'shape': shape(A, True, False, True, True),
            'sound': implies(fx_inF(fmt, v), rmem(v, A, g)),
            'exact': implies(rmem(v, A, g), fx_inF(fmt, v)),
        })
        return out


class C14x_rmem_witness(Lemma):
    """conversely, a finite non-zero `rmem` value has a witness representation: (c / 2^t, e + t) with
    t = max(A.exp - e, bl(c) - A.prec, 0) denotes the same value, has e + t >= A.exp and bl(c / 2^t) <= A.prec"""
    params = {'A': 'AbstractFormat', 'v': 'Float'}
    overrides = {'A.prec': 'int | PosInf', 'A.exp': 'int | NegInf',
                 'A.pos_bound': 'RealFloat | PosInf', 'A.neg_bound': 'RealFloat | NegInf'}
    split = ['A.prec', 'A.exp']
    properties = ['C14']

    def pre(A, v):
        r = v._real
        return {'wf': wf(A), 'nz': nz(v), 'quantum': quantum_ok(r, A), 'digits': digits_ok(r._c, A)}

    def post(A, v):
        r = v._real
        t = wit_shift(r, A)
        m = fdiv(r._c, pow2(t))
        return {'same_value': m * pow2(t) == r._c,
                'exp': exp_fits(r._exp + t, A),
                'prec': prec_fits(m, A)}


class C14x_dy_lt_grid(Lemma):
    """order of two RealFloat values (spec/real.py dy_lt: alignment at the smaller exponent) is the order of their
    signed integers on any grid 2^g below both exponents"""
    params = {'x': 'RealFloat', 'y': 'RealFloat', 'g': 'int'}
    properties = ['C14']
    # MM: two products a*2^j, b*2^k compare like a and b*2^(k-j)
    options = {'split_heavy': True, 'schemas': ['MM']}

    def pre(x, y, g):
        return {'grid': g <= x._exp and g <= y._exp}

    def post(x, y, g):
        return {'lt': case_split(x._exp <= y._exp, x._s, y._s) and dy_lt(x, y) == (Zr(x, g) < Zr(y, g))}


class C14x_from_format_RealFormat(Lemma):
    params = {'fmt': 'RealFormat', 'v': 'Float'}
    properties = ['C14-wip']

    def pre(fmt, v):
        return {}

    def post(fmt, v):
        g = GRID()
        A = AbstractFormat.from_format(fmt)
        out = wf_clauses(A, 'wf')
        out.update(specials_eq(A, True, True, True, True, 'sp'))
        out.update({
            'shape': shape(A, True, True, True, True),
            'sound': implies(real_inF(fmt, v), rmem(v, A, g)),
            'exact': implies(rmem(v, A, g), real_inF(fmt, v)),
        })
        return out


class C14x_from_format_MPFloatFormat(Lemma):
    params = {'fmt': 'MPFloatFormat', 'v': 'Float'}
    properties = ['C14']

    def pre(fmt, v):
        return {'pmax': fmt.pmax >= 1}       # established by MPFloatFormat.__init__

    def post(fmt, v):
        g = GRID()
        A = AbstractFormat.from_format(fmt)
        out = wf_clauses(A, 'wf')
        out.update(specials_eq(A, fmt.enable_nan, fmt.enable_inf, fmt.enable_inf, True, 'sp'))
        out.update({
            'shape': shape(A, False, True, True, True),
            'sound': implies(mpf_inF(fmt, v), rmem(v, A, g)),
            'exact': implies(rmem(v, A, g), mpf_inF(fmt, v)),
        })
        return out


class C14x_from_format_MPSFloatFormat(Lemma):
    params = {'fmt': 'MPSFloatFormat', 'v': 'Float'}
    properties = ['C14']
    no_use = ['MPSFloatFormat_representable_in']      # the C16 contract (B4: result == mps_inF) of the same target

    def pre(fmt, v):
        return {'pmax': fmt.pmax >= 1}       # established by MPSFloatFormat.__init__

    def post(fmt, v):
        g = GRID()
        A = AbstractFormat.from_format(fmt)
        out = wf_clauses(A, 'wf')
        out.update(specials_eq(A, fmt.enable_nan, fmt.enable_inf, fmt.enable_inf, True, 'sp'))
        out.update({
            'shape': shape(A, False, False, True, True),
            'sound': implies(mps_inF(fmt, v), rmem(v, A, g)),
            'exact': implies(rmem(v, A, g), mps_inF(fmt, v)),
        })
        return out


class C14x_from_format_MPBFixedFormat(Lemma):
    params = {'fmt': 'MPBFixedFormat', 'v': 'Float'}
    properties = ['C14-wip']

    def pre(fmt, v):
        g = GRID()
        return {'grid': g <= v._real._exp and g <= fmt.pos_maxval._exp and g <= fmt.neg_maxval._exp and g <= fmt.nmin + 1}

    def post(fmt, v):
        g = GRID()
        A = AbstractFormat.from_format(fmt)
        apply_lemma('C14x_dy_lt_grid', x=v._real, y=fmt.neg_maxval, g=g)
        apply_lemma('C14x_dy_lt_grid', x=fmt.pos_maxval, y=v._real, g=g)
        out = wf_clauses(A, 'wf')
        out.update(specials_eq(A, fmt.enable_nan, fmt.enable_inf, fmt.enable_inf, fmt._mp_fmt.enable_neg_zero, 'sp'))
        out.update({
            'shape': shape(A, True, False, False, False),
            'grid': grid_ok_fmt(A, g),
            'sound': implies(mpbfx_inF(fmt, v), rmem(v, A, g)),
            'exact': implies(rmem(v, A, g), mpbfx_inF(fmt, v)),
        })
        return out
