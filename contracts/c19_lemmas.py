"""
C19 / W2: consequences of the splice arithmetic for a log whose edits are pairwise
disjoint (what EditLog.__post_init__ validates with `_overlaps`).

BOUNDED STAND-IN: the log has at most 3 edits (a log of 3 covers shorter ones: an edit of
another block is neutral).  Integers (indices, counts) are unbounded.  The general statement
needs induction over the log and is not proved here.
"""
from speclib import *
from spec.c19 import *


class W2_splice_positions(Lemma):
    params = {'edits': 'tuple[Edit, Edit, Edit]', 'blk': 'FuncBody | SubBlock', 'i': 'int', 'j': 'int'}
    properties = ['C19']
    options = {'bounded': 8}
    note = 'bounded stand-in: logs of at most 3 edits'

    def pre(self, edits, blk, i, j):
        e0, e1, e2 = edits
        return {
            'disjoint': not overlap_in_block(e0, e1) and not overlap_in_block(e0, e2) and not overlap_in_block(e1, e2),
            'order': 0 <= i and i < j,
            'i_survives': not consumed(edits, blk, i),
            'j_survives': not consumed(edits, blk, j),
        }

    def post(self, edits, blk, i, j):
        e0, e1, e2 = edits
        pi = pos_of(edits, blk, i)
        pj = pos_of(edits, blk, j)
        return {
            # surviving statements keep their order and never collide
            'monotone': pi < pj,
            'nonneg': pi >= 0,
            # a survivor never lands on a statement some edit inserted: a forwarded cursor
            # never resolves to an unrelated (new) statement
            'not_in_inserted_run': not in_run(edits, e0, blk, pi) and not in_run(edits, e1, blk, pi)
                                   and not in_run(edits, e2, blk, pi),
        }


class W2_run_is_well_defined(Lemma):
    """every statement consumed by one edit forwards to the same run: `containing.index + shift`
    does not depend on which consumed statement the cursor named"""
    params = {'edits': 'tuple[Edit, Edit, Edit]', 'blk': 'FuncBody | SubBlock', 'i': 'int', 'j': 'int'}
    properties = ['C19']
    options = {'bounded': 8}
    note = 'bounded stand-in: logs of at most 3 edits'

    def pre(self, edits, blk, i, j):
        e0, e1, e2 = edits
        return {
            'disjoint': not overlap_in_block(e0, e1) and not overlap_in_block(e0, e2) and not overlap_in_block(e1, e2),
            'same_edit': cont_of(edits, blk, i) == cont_of(edits, blk, j) and cont_of(edits, blk, i) != -1,
        }

    def post(self, edits, blk, i, j):
        return {
            'same_shift': shift_of(edits, blk, i) == shift_of(edits, blk, j),
            'unique_consumer': ite(consumes(edits[0], blk, i), 1, 0) + ite(consumes(edits[1], blk, i), 1, 0)
                               + ite(consumes(edits[2], blk, i), 1, 0) == 1,
        }
