"""C04: arithmetic lemmas used by the runtime-helper contracts."""
from speclib import *
from spec.c04 import *


class L_int_denotation_unique(Lemma):
    params = {'s': 'bool', 'e': 'int', 'c': 'int', 'r': 'int', 'a': 'int'}
    properties = ['C04']
    note = 'a dyadic triple denotes at most one integer'

    def pre(self, s, e, c, r, a):
        return {'c': c >= 0, 'r': t_is_int((s, e, c), r), 'a': t_is_int((s, e, c), a)}

    def post(self, s, e, c, r, a):
        return {'unique': r == a}
