from speclib import *
from spec.real import *
from spec.floats import *
from spec.c16 import *


class MPSFloatFormat_representable_in_B4(Contract):
    target = 'fpy2.number.context.mps_float:MPSFloatFormat.representable_in'
    params = {'self': 'MPSFloatFormat', 'x': 'RealFloat | Float'}
    returns = 'bool'
    properties = ['C16']

    def pre(self, x):
        return {'pmax': self.pmax >= 1}

    def post(self, x, result):
        return {'B4_member': result == mps_inF(self, x)}

    def raises(self, x):
        return {}


class MPSFloatFormat__to_ordinal(Contract):
    # DM1: the leading-one strip c & bitmask(p-1) of a p-digit significand needs 2^(p-1) <= c < 2^p -> c mod 2^(p-1) = c - 2^(p-1)
    target = 'fpy2.number.context.mps_float:MPSFloatFormat._to_ordinal'
    params = {'self': 'MPSFloatFormat', 'x': 'RealFloat'}
    returns = 'int'
    properties = ['C16']
    options = {'split_heavy': True, 'schemas': ['DM1']}

    def pre(self, x):
        return {'pmax': self.pmax >= 1, 'member': mps_fin_member(self, x)}

    def post(self, x, result):
        return {'ord': result == mps_ord(self, x)}

    def raises(self, x):
        return {}


class MPSFloatFormat_to_ordinal(Contract):
    target = 'fpy2.number.context.mps_float:MPSFloatFormat.to_ordinal'
    params = {'self': 'MPSFloatFormat', 'x': 'Float', 'infval': 'bool'}
    returns = 'int'
    properties = ['C16']

    def pre(self, x, infval):
        return {'pmax': self.pmax >= 1}

    def post(self, x, infval, result):
        return {'B5_ord': result == mps_ord(self, x._real)}

    def raises(self, x, infval):
        return {'ValueError': not mps_inF(self, x) or infval or x._isnan or x._isinf}


class MPSFloatFormat_from_ordinal(Contract):
    target = 'fpy2.number.context.mps_float:MPSFloatFormat.from_ordinal'
    params = {'self': 'MPSFloatFormat', 'x': 'int', 'infval': 'bool'}
    returns = 'Float'
    properties = ['C16']
    options = {'split_heavy': True}

    def pre(self, x, infval):
        return {'pmax': self.pmax >= 1}

    def post(self, x, infval, result):
        r = result
        return {
            # B5: every integer is an ordinal (contiguous range Z) and to_ordinal(from_ordinal(i)) == i
            'finite': fl_finite(r),
            'wf': r._real._c >= 0,
            'member': mps_inF(self, r),
            'B5_to_from': mps_ord(self, r._real) == x,
            'canonical': implies(x != 0, mps_canonical(self, r._real)),
        }

    def raises(self, x, infval):
        return {'ValueError': infval}


class MPSFloatFormat_minval(Contract):
    target = 'fpy2.number.context.mps_float:MPSFloatFormat.minval'
    params = {'self': 'MPSFloatFormat', 's': 'bool'}
    returns = 'Float'
    properties = ['C16']

    def pre(self, s):
        return {'pmax': self.pmax >= 1}

    def post(self, s, result):
        r = result
        return {
            'finite': fl_finite(r),
            'member': mps_inF(self, r),
            'sign': r._real._s == s,
            # B6: least non-zero magnitude = ordinal +/-1
            'B6_ord': mps_ord(self, r._real) == ite(s, -1, 1),
        }

    def raises(self, s):
        return {}


class MPSFloatFormat_normalize(Contract):
    target = 'fpy2.number.context.mps_float:MPSFloatFormat.normalize'
    params = {'self': 'MPSFloatFormat', 'x': 'Float'}
    returns = 'Float'
    properties = ['C16']
    options = {'split_heavy': True}

    def pre(self, x):
        return {'pmax': self.pmax >= 1, 'member': mps_inF(self, x)}

    def post(self, x, result):
        r = result
        fin = fl_finite(x)
        return {
            'nan': r._isnan == x._isnan,
            'inf': r._isinf == x._isinf,
            'sign': r._real._s == x._real._s,
            'wf': r._real._c >= 0,
            # B6: value-preserving and canonical
            'B6_value': implies(fin, dy_eqv(r._real, x._real)),
            'B6_canonical': implies(fin, mps_canonical(self, r._real)),
            # the canonical representation has the same ordinal
            'ord_preserved': implies(fin, mps_ord(self, r._real) == mps_ord(self, x._real)),
        }

    def raises(self, x):
        return {}


class MPS_canonical_monotone(Lemma):
    """
    B5 (strictly increasing) on canonical representations of non-zero finite members: values compare
    like ordinals.  MPSFloatFormat.normalize maps every member to its canonical representation
    (value and ordinal preserved); MPFixed_ord_monotone lifts magnitudes to signed values.
    """
    params = {'self': 'MPSFloatFormat', 'x': 'RealFloat', 'y': 'RealFloat'}
    properties = ['C16']
    options = {'split_heavy': True, 'schemas': ['MM']}

    def pre(self, x, y):
        return {
            'pmax': self.pmax >= 1,
            'x_nonzero': x._c > 0, 'y_nonzero': y._c > 0,
            'x_canonical': mps_canonical(self, x), 'y_canonical': mps_canonical(self, y),
        }

    def post(self, x, y):
        fork(x._exp < y._exp)
        fork(x._exp > y._exp)
        Q = pow2(self.pmax - 1)
        ox = (x._exp - mps_expmin(self)) * Q + x._c
        oy = (y._exp - mps_expmin(self)) * Q + y._c
        return {
            'canon_x': mps_ord_mag(self, x) == ox,
            'canon_y': mps_ord_mag(self, y) == oy,
            'lt': mag_lt(x, y) == (ox < oy),
            'eq': mag_eq(x, y) == (ox == oy),
            'pos': ox > 0,
        }
