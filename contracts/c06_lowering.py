from speclib import *
from spec.c06 import *


class byte__neg_zero(Contract):
    target = 'fpy2.interpret.byte:_neg_zero'
    params = {}
    returns = 'Float'
    properties = ['C06']

    def post(result):
        return {'neg_zero': is_neg_zero(result)}

    def raises():
        return {}


class BytecodeCompiler__rational_to_ast(Contract):
    target = 'fpy2.interpret.byte:BytecodeCompiler._rational_to_ast'
    params = {'self': 'BytecodeCompiler', 'e': 'Integer | Decnum | Hexnum | Rational | Digits'}
    overrides = {'e.val': 'numstr'}
    returns = 'Any'
    properties = ['C06']
    note = ('Python `ast` node constructors are opaque free constructors (pyvc/strings.py FreeCons); that the emitted names '
            '__fpy_fraction / __fpy_negzero are bound to fractions.Fraction / _neg_zero (byte.make_namespace) is read off the '
            'dict literal, not verified; numerator/denominator of a symbolic Fraction: n/d with d >= 1 (lowest terms not modelled)')

    def pre(self, e):
        return {'wellformed': lit_ok(e)}

    def post(self, e, result):
        r = result
        nz = lit_negzero(e)
        name = r.func.id if (cons_name(r) == 'Call' and cons_name(r.func) == 'Name') else ''
        frac = name == '__fpy_fraction' and len(r.args) == 2 and cons_name(r.args[0]) == 'Constant' and cons_name(r.args[1]) == 'Constant'
        return {
            'is_call': cons_name(r) == 'Call' and (name == '__fpy_fraction' or name == '__fpy_negzero') and len(r.keywords) == 0,
            # a signed zero is emitted as the call of the -0 helper, and only then
            'neg_zero_iff': (name == '__fpy_negzero') == nz,
            'neg_zero_noargs': (len(r.args) == 0) if name == '__fpy_negzero' else True,
            # otherwise Fraction(num, den) of exactly the number the literal denotes
            'fraction_exact': (r.args[1].value != 0 and rdiv(r.args[0].value, r.args[1].value) == lit_value(e)) if frac else name == '__fpy_negzero',
        }

    def raises(self, e):
        return {}
