from speclib import *
from spec.real import *
from spec.floats import *
from spec.c16 import *


class FixedFormat_decode(Contract):
    target = 'fpy2.number.context.fixed:FixedFormat.decode'
    params = {'self': 'FixedFormat', 'x': 'int'}
    returns = 'Float'
    properties = ['C16']

    def post(self, x, result):
        r = result
        return {
            'finite': fl_finite(r),
            'wf': r._real._c >= 0,
            # B1: the value the two's complement layout assigns to the word: tc_int(x) * 2^scale
            'B1_exp': r._real._exp == self.scale,
            'B1_value': sgn(r._real._s, r._real._c) == tc_int(self, x),
            'single_zero': r._real._c != 0 or not r._real._s,
            # B4 (=>): every pattern decodes to a member of the value set
            'B4_member': fixed_inF(self, r),
        }

    def raises(self, x):
        return {'ValueError': x < 0 or x >= pow2(self.nbits)}


class FixedFormat_encode(Contract):
    target = 'fpy2.number.context.fixed:FixedFormat.encode'
    params = {'self': 'FixedFormat', 'x': 'Float'}
    returns = 'int'
    properties = ['C16']
    # the step from "within [neg_maxval, pos_maxval] by alignment" (callee contract) to the integer range of the
    # word does not go through unbounded in reasonable time (> 200 s per path): bounded stand-in, widths/exponents <= 6
    options = {'split_heavy': True, 'bounded': 6, 'bounded_try_ms': 1500, 'bounded_ms': 30000, 'symbolic_tier': 'thorough'}   # 450-800 s (1800 s under load): thorough tier only

    def post(self, x, result):
        return {
            'range': 0 <= result and result < pow2(self.nbits),
            # B2: the word stands for x's value (so decode(encode(x)) has the value of x, by FixedFormat_decode#B1)
            'B2_value': tc_int(self, result) == sgn(x._real._s, val_at(x._real, self.scale)),
        }

    def raises(self, x):
        # B4: encodable <=> member of the value set
        return {'ValueError': not fixed_inF(self, x)}


class Fixed_tc_injective(Lemma):
    """B3: a word is determined by the integer it stands for, hence encode(decode(b)) == b (with #B1, #B2, #range)"""
    params = {'self': 'FixedFormat', 'a': 'int', 'b': 'int'}
    properties = ['C16']

    def pre(self, a, b):
        return {'a_word': 0 <= a and a < pow2(self.nbits), 'b_word': 0 <= b and b < pow2(self.nbits),
                'same_int': tc_int(self, a) == tc_int(self, b)}

    def post(self, a, b):
        return {'B3_same_word': a == b,
                'in_range': tc_lo(self) <= tc_int(self, a) and tc_int(self, a) <= tc_hi(self)}


class SMFixedFormat_decode(Contract):
    target = 'fpy2.number.context.sm_fixed:SMFixedFormat.decode'
    params = {'self': 'SMFixedFormat', 'x': 'int'}
    returns = 'Float'
    properties = ['C16']
    options = {'schemas': ['DM1']}

    def post(self, x, result):
        r = result
        return {
            'finite': fl_finite(r),
            'wf': r._real._c >= 0,
            # B1: sign bit | magnitude, scaled by 2^scale
            'B1_exp': r._real._exp == self.scale,
            'B1_sign': r._real._s == sm_sign(self, x),
            'B1_mag': r._real._c == sm_mag(self, x),
            'B4_member': smfixed_inF(self, r),
        }

    def raises(self, x):
        return {'ValueError': x < 0 or x >= pow2(self.nbits)}


class SMFixedFormat_encode(Contract):
    target = 'fpy2.number.context.sm_fixed:SMFixedFormat.encode'
    params = {'self': 'SMFixedFormat', 'x': 'Float'}
    returns = 'int'
    properties = ['C16']
    # bounded stand-in (widths/exponents <= 6), same reason as FixedFormat_encode
    options = {'split_heavy': True, 'bounded': 6, 'bounded_try_ms': 1500, 'bounded_ms': 30000, 'symbolic_tier': 'thorough'}   # 450-800 s (1800 s under load): thorough tier only

    def post(self, x, result):
        return {
            'range': 0 <= result and result < pow2(self.nbits),
            # B2: sign (of zero too) and magnitude of the word are those of x
            'B2_sign': sm_sign(self, result) == x._real._s,
            'B2_mag': sm_mag(self, result) == val_at(x._real, self.scale),
        }

    def raises(self, x):
        return {'ValueError': not smfixed_inF(self, x)}


class SMFixed_injective(Lemma):
    """B3: a word is determined by its sign bit and magnitude field"""
    params = {'self': 'SMFixedFormat', 'a': 'int', 'b': 'int'}
    properties = ['C16']
    options = {'schemas': ['DM1']}

    def pre(self, a, b):
        return {'a_word': 0 <= a and a < pow2(self.nbits), 'b_word': 0 <= b and b < pow2(self.nbits),
                'same_sign': sm_sign(self, a) == sm_sign(self, b), 'same_mag': sm_mag(self, a) == sm_mag(self, b)}

    def post(self, a, b):
        return {'B3_same_word': a == b}
