"""
C19 / W4: EditLog.forward for a statement cursor, and the cursor constructors it ends in.

What a path *resolves to* in a program is a fact about the AST, outside the index
arithmetic: `resolve_stmt` / `resolve_block` carry TRUSTED contracts that only name
that fact (uninterpreted `stmt_resolves` / `block_resolves` / `block_len`).
"""
from speclib import *
from spec.c19 import *


class resolve_stmt_(Contract):
    target = 'fpy2.transform.path:resolve_stmt'
    params = {'func': 'FuncDef', 'path': 'StmtPath'}
    returns = 'Stmt'
    properties = ['C19']
    trusted = True
    note = 'resolve_stmt(func, path) raises TransformReferenceError exactly when the path names no statement of func (AST walk, not verified)'

    def raises(self, func, path):
        return {'TransformReferenceError': not stmt_resolves(func, path.parent, path.index)}


class resolve_block_(Contract):
    target = 'fpy2.transform.path:resolve_block'
    params = {'func': 'FuncDef', 'path': 'FuncBody | SubBlock'}
    returns = 'StmtBlock'
    properties = ['C19']
    trusted = True
    note = 'resolve_block(func, path) raises TransformReferenceError exactly when the path names no block of func; otherwise the block has block_len(func, path) statements (AST walk, not verified)'

    def post(self, func, path, result):
        return {'len': len(result.stmts) == block_len(func, path)}

    def raises(self, func, path):
        return {'TransformReferenceError': not block_resolves(func, path)}


class StmtCursor___post_init__(Contract):
    target = 'fpy2.transform.cursor:StmtCursor.__post_init__'
    params = {'self': 'StmtCursor'}
    returns = 'None'
    properties = ['C19']

    def raises(self):
        return {'TypeError': False,
                'TransformReferenceError': not stmt_resolves(self.func, self.path.parent, self.path.index)}


class BlockCursor___post_init__(Contract):
    target = 'fpy2.transform.cursor:BlockCursor.__post_init__'
    params = {'self': 'BlockCursor'}      # span: a range of step 1 (the only ranges the engine models)
    returns = 'None'
    properties = ['C19']

    def raises(self):
        return {'TypeError': False,
                'TransformReferenceError':
                    (not block_resolves(self.func, self.block_path))
                    or not (0 <= self.span.start and self.span.stop <= block_len(self.func, self.block_path))}


class EditLog_forward_foreign(Contract):
    """a cursor of another program (cursor.func is not log.source) is a reference error"""
    target = 'fpy2.transform.cursor:EditLog.forward'
    params = {'self': 'EditLog', 'cursor': 'StmtCursor'}
    returns = 'StmtCursor | BlockCursor'
    properties = ['C19']
    inline = True

    def raises(self, cursor):
        return {'TransformReferenceError': True}


class EditLog_forward(Contract):
    """a statement cursor of the log's own source program"""
    target = 'fpy2.transform.cursor:EditLog.forward'
    params = {'self': 'EditLog', 'cursor': 'StmtCursor'}
    aliases = {'cursor.func': 'self.source'}
    returns = 'StmtCursor | BlockCursor'
    properties = ['C19']
    inline = True

    def post(self, cursor, result):
        edits = self.edits
        blk, idx = cursor.path.parent, cursor.path.index
        n = len(edits)
        c = cont_of(edits, blk, idx)
        s = shift_of(edits, blk, idx)
        inside = 0 <= c and c < n
        out = {
            'into_result_program': same_obj(result.func, self.result),
            # one statement iff the statement survived or was replaced by exactly one
            'kind': (cls_name(result) == 'StmtCursor') == (c == -1 or ((edits[c].inserted == 1) if inside else False)),
        }
        if cls_name(result) == 'StmtCursor':
            out.update({
                'block': result.path.parent == fwd_block(edits, blk),
                'survivor_at_splice_position': implies(c == -1, result.path.index == pos_of(edits, blk, idx)),
                'replaced_by_one': implies(c != -1, (result.path.index == edits[c].index + s) if inside else False),
            })
        else:
            out.update({
                'block': result.block_path == fwd_block(edits, blk),
                'was_replaced': c != -1,
                # exactly the run that replaced it
                'run_start': (result.span.start == edits[c].index + s) if inside else False,
                'run_stop': (result.span.stop == edits[c].index + s + edits[c].inserted) if inside else False,
                'run_len': (len(result.span) == edits[c].inserted and edits[c].inserted >= 2) if inside else False,
            })
        return out

    def raises(self, cursor):
        edits = self.edits
        blk, idx = cursor.path.parent, cursor.path.index
        n = len(edits)
        c = cont_of(edits, blk, idx)
        s = shift_of(edits, blk, idx)
        inside = 0 <= c and c < n
        nb = fwd_block(edits, blk)
        ins = edits[c].inserted if inside else 1
        at = (edits[c].index + s) if inside else (idx + s)
        return {
            'TypeError': False,
            'TransformReferenceError':
                # a statement enclosing it was rewritten
                anc_rewritten(edits, blk)
                # it was deleted
                or (c != -1 and ins == 0)
                # or its image does not exist in the result program (constructor validation)
                or (ins == 1 and not stmt_resolves(self.result, nb, at))
                or (ins >= 2 and ((not block_resolves(self.result, nb))
                                  or not (0 <= at and at + ins <= block_len(self.result, nb)))),
        }
