"""
C19x: facts about the reference table itself (spec/c19x.py VISIT_ORDER), which both sides are proved against.

  * in every row no expression entry follows a block entry: the visitor reaches a statement's own expressions before
    the blocks it holds (the order `walk_exprs` / `expr_sites` document: "a statement's own expressions before the
    blocks it holds");
  * every field a row names is one of the declared ExprField / BlockField literals of fpy2/transform/path.py;
  * a row names a field at most once per kind, so (field, index) identifies a child (what `resolve_expr` /
    `resolve_block` search the listing by).
The table is concrete, so these are decided by evaluation (one clause per row).
"""
from speclib import *
from spec.c19x import *


class visit_order_table(Lemma):
    params = {}
    properties = ['C19']

    def post(self):
        out = {}
        for name, cls in KIND_CLASSES:
            row = VISIT_ORDER[name]
            out[name + '_exprs_before_blocks'] = exprs_before_blocks(row)
            out[name + '_fields_declared'] = fields_are_declared(row)
            out[name + '_fields_distinct'] = fields_distinct(row)
        out['every_row_has_a_class'] = len(VISIT_ORDER) == len(KIND_CLASSES)
        return out
