"""
C01 context layer (wave 2): the constructors establish the class invariants that spec/ctx.py assumes for every
context object (inv_MPBFloatContext, inv_MPBFixedContext + mpbx_ordinals, inv_ExpContext) and raise exactly on
invalid parameters.
"""
from speclib import *
from spec.real import *
from spec.floats import *
from spec.ctx import *
from spec.ctx2 import *
from fpy2.number.round import RoundingMode


class MPBFloatFormat___init__(Contract):
    target = 'fpy2.number.context.mpb_float:MPBFloatFormat.__init__'
    params = {'self': 'MPBFloatFormat', 'pmax': 'int', 'emin': 'int', 'pos_maxval': 'RealFloat',
              'neg_maxval': 'RealFloat | None', 'enable_nan': 'bool', 'enable_inf': 'bool'}
    returns = 'None'
    properties = ['C01']
    split = ['neg_maxval']
    options = {'noax_first_ms': 4000, 'light_theory': True}

    def post(self, pmax, emin, pos_maxval, neg_maxval, enable_nan, enable_inf, result):
        nm = self.neg_maxval
        return {
            'pmax': self.pmax == pmax and pmax >= 1,
            'emin': self.emin == emin,
            'enable_nan': self.enable_nan == enable_nan,
            'enable_inf': self.enable_inf == enable_inf,
            'pos_maxval': same_real(self.pos_maxval, pos_maxval) and not self.pos_maxval._s,
            'neg_maxval': (same_real(nm, neg_maxval) if neg_maxval is not None
                           else (nm._s and nm._exp == pos_maxval._exp and nm._c == pos_maxval._c)),
            'neg_sign': nm._s,
            # inv_MPBFloatFormat (spec/c16.py)
            'mps_fmt': self._mps_fmt.pmax == pmax and self._mps_fmt.emin == emin
                       and self._mps_fmt.enable_nan == enable_nan and self._mps_fmt.enable_inf == enable_inf,
            # the bounds are members of the format they bound (K1: a saturated result is a member)
            'pos_member': mps_member_real(pmax, emin, self.pos_maxval),
            'neg_member': mps_member_real(pmax, emin, nm),
        }

    def raises(self, pmax, emin, pos_maxval, neg_maxval, enable_nan, enable_inf):
        neg_bad = ((not neg_maxval._s) or not mps_member_real(pmax, emin, neg_maxval)) if neg_maxval is not None else False
        return {'ValueError': pmax < 1 or pos_maxval._s or neg_bad
                              or ((not mps_member_real(pmax, emin, pos_maxval)) if pmax >= 1 else False)}


class MPBFloatContext___init__(Contract):
    target = 'fpy2.number.context.mpb_float:MPBFloatContext.__init__'
    params = {'self': 'MPBFloatContext', 'pmax': 'int', 'emin': 'int', 'maxval': 'RealFloat', 'rm': 'RoundingMode',
              'overflow': 'OverflowMode', 'num_randbits': 'int | None', 'neg_maxval': 'RealFloat | None',
              'rng': 'RNG | None', 'enable_nan': 'bool', 'enable_inf': 'bool',
              'nan_value': 'Float | None', 'inf_value': 'Float | None'}
    returns = 'None'
    properties = ['C01']
    binds = {'self.nan_value': 'nan_value', 'self.inf_value': 'inf_value', 'self.rng': 'rng'}
    split = ['neg_maxval', 'nan_value', 'inf_value']
    # with substitutes: hundreds of paths, minutes per case -> thorough tier; *_plain is the quick-tier variant
    options = {'noax_first_ms': 4000, 'light_theory': True, 'symbolic_tier': 'thorough'}

    def post(self, pmax, emin, maxval, rm, overflow, num_randbits, neg_maxval, rng, enable_nan, enable_inf,
             nan_value, inf_value, result):
        return {
            # inv_MPBFloatContext, clause by clause
            'inv_pmax': self.pmax >= 1,
            'inv_pos_sign': not self.pos_maxval._s,
            'inv_neg_sign': self.neg_maxval._s,
            'inv_no_wrap': self.overflow.name != 'WRAP',
            'inv_fmt': self._fmt.pmax == self.pmax and self._fmt.emin == self.emin,
            'inv_fmt_pos': same_real(self._fmt.pos_maxval, self.pos_maxval),
            'inv_fmt_neg': same_real(self._fmt.neg_maxval, self.neg_maxval),
            # the parameters are stored as given
            'pmax': self.pmax == pmax,
            'emin': self.emin == emin,
            'pos_maxval': same_real(self.pos_maxval, maxval),
            'neg_maxval': (same_real(self.neg_maxval, neg_maxval) if neg_maxval is not None
                           else (self.neg_maxval._s and self.neg_maxval._exp == maxval._exp and self.neg_maxval._c == maxval._c)),
            'rm': self.rm.name == rm.name,
            'overflow': self.overflow.name == overflow.name,
            'num_randbits': (self.num_randbits is None) if num_randbits is None
                            else (self.num_randbits is not None and self.num_randbits == num_randbits),
            'enable_nan': self.enable_nan == enable_nan,
            'enable_inf': self.enable_inf == enable_inf,
            'fmt_enable': self._fmt.enable_nan == enable_nan and self._fmt.enable_inf == enable_inf,
            # K5: the substitutes are members of the format (the infinity substitute under either sign)
            'nan_value_member': mpb2_member(pmax, emin, self.pos_maxval, self.neg_maxval, enable_nan, enable_inf, nan_value, nan_value._real._s)
                                if (nan_value is not None and not enable_nan) else True,
            'inf_value_member': (mpb2_member(pmax, emin, self.pos_maxval, self.neg_maxval, enable_nan, enable_inf, inf_value, False)
                                 and mpb2_member(pmax, emin, self.pos_maxval, self.neg_maxval, enable_nan, enable_inf, inf_value, True))
                                if (inf_value is not None and not enable_inf) else True,
        }

    def raises(self, pmax, emin, maxval, rm, overflow, num_randbits, neg_maxval, rng, enable_nan, enable_inf,
               nan_value, inf_value):
        neg_bad = ((not neg_maxval._s) or not mps_member_real(pmax, emin, neg_maxval)) if neg_maxval is not None else False
        fmt_bad = (pmax < 1 or maxval._s or neg_bad or ((not mps_member_real(pmax, emin, maxval)) if pmax >= 1 else False))
        return {'ValueError': overflow.name == 'WRAP' or fmt_bad
                              or mpb2_subst_bad(pmax, emin, maxval, neg_maxval, enable_nan, enable_inf, nan_value, inf_value)}


class MPBFloatContext___init___plain(Contract):
    target = 'fpy2.number.context.mpb_float:MPBFloatContext.__init__'
    params = {'self': 'MPBFloatContext', 'pmax': 'int', 'emin': 'int', 'maxval': 'RealFloat', 'rm': 'RoundingMode',
              'overflow': 'OverflowMode', 'num_randbits': 'int | None', 'neg_maxval': 'RealFloat | None',
              'rng': 'RNG | None', 'enable_nan': 'bool', 'enable_inf': 'bool',
              'nan_value': 'None', 'inf_value': 'None'}
    returns = 'None'
    properties = ['C01']
    binds = {'self.nan_value': 'nan_value', 'self.inf_value': 'inf_value', 'self.rng': 'rng'}
    split = ['neg_maxval']
    inline = True      # the variant without substitutes (quick tier)
    options = {'noax_first_ms': 4000, 'light_theory': True}

    def post(self, pmax, emin, maxval, rm, overflow, num_randbits, neg_maxval, rng, enable_nan, enable_inf,
             nan_value, inf_value, result):
        return {
            # inv_MPBFloatContext, clause by clause
            'inv_pmax': self.pmax >= 1,
            'inv_pos_sign': not self.pos_maxval._s,
            'inv_neg_sign': self.neg_maxval._s,
            'inv_no_wrap': self.overflow.name != 'WRAP',
            'inv_fmt': self._fmt.pmax == self.pmax and self._fmt.emin == self.emin,
            'inv_fmt_pos': same_real(self._fmt.pos_maxval, self.pos_maxval),
            'inv_fmt_neg': same_real(self._fmt.neg_maxval, self.neg_maxval),
            # the parameters are stored as given
            'pmax': self.pmax == pmax,
            'emin': self.emin == emin,
            'pos_maxval': same_real(self.pos_maxval, maxval),
            'neg_maxval': (same_real(self.neg_maxval, neg_maxval) if neg_maxval is not None
                           else (self.neg_maxval._s and self.neg_maxval._exp == maxval._exp and self.neg_maxval._c == maxval._c)),
            'rm': self.rm.name == rm.name,
            'overflow': self.overflow.name == overflow.name,
            'num_randbits': (self.num_randbits is None) if num_randbits is None
                            else (self.num_randbits is not None and self.num_randbits == num_randbits),
            'enable_nan': self.enable_nan == enable_nan,
            'enable_inf': self.enable_inf == enable_inf,
            'fmt_enable': self._fmt.enable_nan == enable_nan and self._fmt.enable_inf == enable_inf,
            # K5: the substitutes are members of the format (the infinity substitute under either sign)
            'nan_value_member': mpb2_member(pmax, emin, self.pos_maxval, self.neg_maxval, enable_nan, enable_inf, nan_value, nan_value._real._s)
                                if (nan_value is not None and not enable_nan) else True,
            'inf_value_member': (mpb2_member(pmax, emin, self.pos_maxval, self.neg_maxval, enable_nan, enable_inf, inf_value, False)
                                 and mpb2_member(pmax, emin, self.pos_maxval, self.neg_maxval, enable_nan, enable_inf, inf_value, True))
                                if (inf_value is not None and not enable_inf) else True,
        }

    def raises(self, pmax, emin, maxval, rm, overflow, num_randbits, neg_maxval, rng, enable_nan, enable_inf,
               nan_value, inf_value):
        neg_bad = ((not neg_maxval._s) or not mps_member_real(pmax, emin, neg_maxval)) if neg_maxval is not None else False
        fmt_bad = (pmax < 1 or maxval._s or neg_bad or ((not mps_member_real(pmax, emin, maxval)) if pmax >= 1 else False))
        return {'ValueError': overflow.name == 'WRAP' or fmt_bad
                              or mpb2_subst_bad(pmax, emin, maxval, neg_maxval, enable_nan, enable_inf, nan_value, inf_value)}


class MPBFixedFormat___init__(Contract):
    target = 'fpy2.number.context.mpb_fixed:MPBFixedFormat.__init__'
    params = {'self': 'MPBFixedFormat', 'nmin': 'int', 'pos_maxval': 'RealFloat', 'neg_maxval': 'RealFloat | None',
              'enable_nan': 'bool', 'enable_inf': 'bool', 'enable_neg_zero': 'bool'}
    returns = 'None'
    properties = ['C01']
    split = ['neg_maxval']
    options = {'noax_first_ms': 4000, 'light_theory': True}

    def post(self, nmin, pos_maxval, neg_maxval, enable_nan, enable_inf, enable_neg_zero, result):
        pm = self.pos_maxval
        nm = self.neg_maxval
        return {
            'nmin': self.nmin == nmin,
            'enable': self.enable_nan == enable_nan and self.enable_inf == enable_inf,
            'pos_maxval': same_real(pm, pos_maxval),
            'neg_maxval': (same_real(nm, neg_maxval) if neg_maxval is not None
                           else (nm._s and nm._exp == pos_maxval._exp and nm._c == pos_maxval._c)),
            # inv_MPBFixedFormat (spec/c16.py) / the format part of inv_MPBFixedContext (spec/ctx.py)
            'inv_signs': (pm._c == 0 or not pm._s) and (nm._c == 0 or nm._s),
            'inv_mp_fmt': self._mp_fmt.nmin == nmin and self._mp_fmt.enable_neg_zero == enable_neg_zero
                          and self._mp_fmt.enable_nan == enable_nan and self._mp_fmt.enable_inf == enable_inf,
            # mpbx_ordinals: both bounds are members and their ordinals are cached
            'pos_member': on_grid(pm, nmin),
            'neg_member': on_grid(nm, nmin),
            'pos_ord': self._pos_maxval_ord == fx_ord(pm._s, pm._exp, pm._c, nmin),
            'neg_ord': self._neg_maxval_ord == fx_ord(nm._s, nm._exp, nm._c, nmin),
        }

    def raises(self, nmin, pos_maxval, neg_maxval, enable_nan, enable_inf, enable_neg_zero):
        neg_bad = ((not neg_maxval._s and neg_maxval._c != 0) or not on_grid(neg_maxval, nmin)) if neg_maxval is not None else False
        return {'ValueError': (pos_maxval._s and pos_maxval._c != 0) or not on_grid(pos_maxval, nmin) or neg_bad}


class MPBFixedContext___init__(Contract):
    target = 'fpy2.number.context.mpb_fixed:MPBFixedContext.__init__'
    params = {'self': 'MPBFixedContext', 'nmin': 'int', 'maxval': 'RealFloat', 'rm': 'RoundingMode',
              'overflow': 'OverflowMode', 'num_randbits': 'int | None', 'neg_maxval': 'RealFloat | None',
              'rng': 'RNG | None', 'enable_nan': 'bool', 'enable_inf': 'bool', 'enable_neg_zero': 'bool',
              'nan_value': 'Float | None', 'inf_value': 'Float | None'}
    returns = 'None'
    properties = ['C01']
    binds = {'self.nan_value': 'nan_value', 'self.inf_value': 'inf_value', 'self.rng': 'rng'}
    split = ['neg_maxval', 'nan_value', 'inf_value']
    # with substitutes: hundreds of paths, minutes per case -> thorough tier; *_plain is the quick-tier variant
    options = {'noax_first_ms': 4000, 'light_theory': True, 'symbolic_tier': 'thorough'}

    def post(self, nmin, maxval, rm, overflow, num_randbits, neg_maxval, rng, enable_nan, enable_inf, enable_neg_zero,
             nan_value, inf_value, result):
        f = self._fmt
        return {
            # inv_MPBFixedContext, clause by clause
            'inv_signs': (self.pos_maxval._c == 0 or not self.pos_maxval._s) and (self.neg_maxval._c == 0 or self.neg_maxval._s),
            'inv_fmt_nmin': f.nmin == self.nmin,
            'inv_fmt_enable': f.enable_nan == self.enable_nan and f.enable_inf == self.enable_inf,
            'inv_fmt_pos': same_real(f.pos_maxval, self.pos_maxval),
            'inv_fmt_neg': same_real(f.neg_maxval, self.neg_maxval),
            'inv_mp_fmt': f._mp_fmt.nmin == self.nmin and f._mp_fmt.enable_neg_zero == self.enable_neg_zero
                          and f._mp_fmt.enable_nan == self.enable_nan and f._mp_fmt.enable_inf == self.enable_inf,
            # the precondition `fmt_ordinals` of the rounding contracts
            'fmt_ordinals': mpbx_ordinals(self),
            # the parameters are stored as given
            'nmin': self.nmin == nmin,
            'pos_maxval': same_real(self.pos_maxval, maxval),
            'neg_maxval': (same_real(self.neg_maxval, neg_maxval) if neg_maxval is not None
                           else (self.neg_maxval._s and self.neg_maxval._exp == maxval._exp and self.neg_maxval._c == maxval._c)),
            'rm': self.rm.name == rm.name,
            'overflow': self.overflow.name == overflow.name,
            'num_randbits': (self.num_randbits is None) if num_randbits is None
                            else (self.num_randbits is not None and self.num_randbits == num_randbits),
            'enable': self.enable_nan == enable_nan and self.enable_inf == enable_inf and self.enable_neg_zero == enable_neg_zero,
            # K5: the substitutes are members of the format (they are delivered as configured)
            'nan_value_member': mpbx2_member(self, nan_value) if (nan_value is not None and not enable_nan) else True,
            'inf_value_member': mpbx2_member(self, inf_value) if (inf_value is not None and not enable_inf) else True,
        }

    def raises(self, nmin, maxval, rm, overflow, num_randbits, neg_maxval, rng, enable_nan, enable_inf, enable_neg_zero,
               nan_value, inf_value):
        neg_bad = ((not neg_maxval._s and neg_maxval._c != 0) or not on_grid(neg_maxval, nmin)) if neg_maxval is not None else False
        fmt_bad = (maxval._s and maxval._c != 0) or not on_grid(maxval, nmin) or neg_bad
        return {'ValueError': fmt_bad or mpbx2_subst_bad(nmin, maxval, neg_maxval, enable_nan, enable_inf, enable_neg_zero,
                                                         nan_value, inf_value)}


class MPBFixedContext___init___plain(Contract):
    target = 'fpy2.number.context.mpb_fixed:MPBFixedContext.__init__'
    params = {'self': 'MPBFixedContext', 'nmin': 'int', 'maxval': 'RealFloat', 'rm': 'RoundingMode',
              'overflow': 'OverflowMode', 'num_randbits': 'int | None', 'neg_maxval': 'RealFloat | None',
              'rng': 'RNG | None', 'enable_nan': 'bool', 'enable_inf': 'bool', 'enable_neg_zero': 'bool',
              'nan_value': 'None', 'inf_value': 'None'}
    returns = 'None'
    properties = ['C01']
    binds = {'self.nan_value': 'nan_value', 'self.inf_value': 'inf_value', 'self.rng': 'rng'}
    split = ['neg_maxval']
    inline = True      # the variant without substitutes (quick tier)
    options = {'noax_first_ms': 4000, 'light_theory': True}

    def post(self, nmin, maxval, rm, overflow, num_randbits, neg_maxval, rng, enable_nan, enable_inf, enable_neg_zero,
             nan_value, inf_value, result):
        f = self._fmt
        return {
            # inv_MPBFixedContext, clause by clause
            'inv_signs': (self.pos_maxval._c == 0 or not self.pos_maxval._s) and (self.neg_maxval._c == 0 or self.neg_maxval._s),
            'inv_fmt_nmin': f.nmin == self.nmin,
            'inv_fmt_enable': f.enable_nan == self.enable_nan and f.enable_inf == self.enable_inf,
            'inv_fmt_pos': same_real(f.pos_maxval, self.pos_maxval),
            'inv_fmt_neg': same_real(f.neg_maxval, self.neg_maxval),
            'inv_mp_fmt': f._mp_fmt.nmin == self.nmin and f._mp_fmt.enable_neg_zero == self.enable_neg_zero
                          and f._mp_fmt.enable_nan == self.enable_nan and f._mp_fmt.enable_inf == self.enable_inf,
            # the precondition `fmt_ordinals` of the rounding contracts
            'fmt_ordinals': mpbx_ordinals(self),
            # the parameters are stored as given
            'nmin': self.nmin == nmin,
            'pos_maxval': same_real(self.pos_maxval, maxval),
            'neg_maxval': (same_real(self.neg_maxval, neg_maxval) if neg_maxval is not None
                           else (self.neg_maxval._s and self.neg_maxval._exp == maxval._exp and self.neg_maxval._c == maxval._c)),
            'rm': self.rm.name == rm.name,
            'overflow': self.overflow.name == overflow.name,
            'num_randbits': (self.num_randbits is None) if num_randbits is None
                            else (self.num_randbits is not None and self.num_randbits == num_randbits),
            'enable': self.enable_nan == enable_nan and self.enable_inf == enable_inf and self.enable_neg_zero == enable_neg_zero,
            # K5: the substitutes are members of the format (they are delivered as configured)
            'nan_value_member': mpbx2_member(self, nan_value) if (nan_value is not None and not enable_nan) else True,
            'inf_value_member': mpbx2_member(self, inf_value) if (inf_value is not None and not enable_inf) else True,
        }

    def raises(self, nmin, maxval, rm, overflow, num_randbits, neg_maxval, rng, enable_nan, enable_inf, enable_neg_zero,
               nan_value, inf_value):
        neg_bad = ((not neg_maxval._s and neg_maxval._c != 0) or not on_grid(neg_maxval, nmin)) if neg_maxval is not None else False
        fmt_bad = (maxval._s and maxval._c != 0) or not on_grid(maxval, nmin) or neg_bad
        return {'ValueError': fmt_bad or mpbx2_subst_bad(nmin, maxval, neg_maxval, enable_nan, enable_inf, enable_neg_zero,
                                                         nan_value, inf_value)}


class ExpContext___init__(Contract):
    target = 'fpy2.number.context.exponential:ExpContext.__init__'
    params = {'self': 'ExpContext', 'nbits': 'int', 'eoffset': 'int', 'rm': 'RoundingMode', 'overflow': 'OverflowMode',
              'inf_value': 'Float | None'}
    returns = 'None'
    properties = ['C01']
    split = ['inf_value']
    options = {'noax_first_ms': 4000}

    def post(self, nbits, eoffset, rm, overflow, inf_value, result):
        emax = pow2(nbits - 1) - 1 + eoffset
        emin = 1 - pow2(nbits - 1) + eoffset       # 1 - emax_0 + eoffset - 1 + 1 ... see 'emin'
        return {
            # inv_ExpContext
            'inv_overflow': self.overflow.name == 'OVERFLOW' or self.overflow.name == 'SATURATE',
            'inv_bounds': self._fmt._emin <= self._fmt._emax,
            # 2^nbits exponents: emax = 2^(nbits-1) - 1 + eoffset, emin = emax - (2^nbits - 1) + 1 ... as published
            'emax': self._fmt._emax == pow2(nbits - 1) - 1 + eoffset,
            'emin': self._fmt._emin == eoffset - (pow2(nbits - 1) - 1),
            'fields': self.nbits == nbits and self.eoffset == eoffset and self.rm.name == rm.name
                      and self.overflow.name == overflow.name,
            # K5: the infinity substitute is a member: a power of two within [emin, emax], canonical (c = 1)
            'inf_value_member': (fl_finite(self.inf_value) and not self.inf_value._real._s and self.inf_value._real._c == 1
                                 and self._fmt._emin <= self.inf_value._real._exp
                                 and self.inf_value._real._exp <= self._fmt._emax) if inf_value is not None else True,
            'inf_value_same': (dy_eqv(self.inf_value._real, inf_value._real)) if inf_value is not None else True,
            'inf_value_none': (self.inf_value is None) if inf_value is None else True,
        }

    def raises(self, nbits, eoffset, rm, overflow, inf_value):
        om = overflow.name
        return {'ValueError': (om != 'OVERFLOW' and om != 'SATURATE') or nbits <= 0
                              or exp2_inf_bad(nbits, eoffset, inf_value)}
