"""
C19x (aiming side): the visit methods of `DefaultTransformVisitor` / `DefaultVisitor` (fpy2/ast/visitor.py) hand the
children of a node to `_visit_expr` / `_visit_block` in the order of spec/c19x.py VISIT_ORDER -- the same table the
listing side (contracts/c19x_listing.py) is proved against.

The receiver is the recording probe spec.c19x.OrderProbe (a DefaultTransformVisitor whose `_visit_expr` /
`_visit_block` append what they are handed to `log` instead of descending); the visit method under verification is
the inherited, unmodified one.  `log` starts empty (`seq_len: self.log = 0`: a state of the instrument, not a bound
on the program).

Node classes whose children are all in scalar fields (statements except IndexedAssign; ListRef, ListSlice, IfExpr,
Attribute, Unary/Binary/TernaryOp) are proved exactly.  Classes with a sequence-valued field are a BOUNDED STAND-IN
(the field holds 2 elements; `for`-comprehensions with an effectful body over a symbolic-length sequence are outside
the engine): contracts *_seq2 below.
"""
from speclib import *
from spec.c19x import *



class TV_assign(Contract):
    target = 'fpy2.ast.visitor:DefaultTransformVisitor._visit_assign'
    params = {'self': 'OrderProbe', 'stmt': 'Assign', 'ctx': 'None'}
    returns = 'tuple'
    properties = ['C19']
    inline = True
    modifies = ['self.log']
    options = {'seq_len': {'self.log': 0}}

    def post(self, stmt, ctx, result):
        return probe_clauses(stmt, self.log)

    def raises(self, stmt, ctx):
        return {}


class TV_if1(Contract):
    target = 'fpy2.ast.visitor:DefaultTransformVisitor._visit_if1'
    params = {'self': 'OrderProbe', 'stmt': 'If1Stmt', 'ctx': 'None'}
    returns = 'tuple'
    properties = ['C19']
    inline = True
    modifies = ['self.log']
    options = {'seq_len': {'self.log': 0}}

    def post(self, stmt, ctx, result):
        return probe_clauses(stmt, self.log)

    def raises(self, stmt, ctx):
        return {}


class TV_if(Contract):
    target = 'fpy2.ast.visitor:DefaultTransformVisitor._visit_if'
    params = {'self': 'OrderProbe', 'stmt': 'IfStmt', 'ctx': 'None'}
    returns = 'tuple'
    properties = ['C19']
    inline = True
    modifies = ['self.log']
    options = {'seq_len': {'self.log': 0}}

    def post(self, stmt, ctx, result):
        return probe_clauses(stmt, self.log)

    def raises(self, stmt, ctx):
        return {}


class TV_while(Contract):
    target = 'fpy2.ast.visitor:DefaultTransformVisitor._visit_while'
    params = {'self': 'OrderProbe', 'stmt': 'WhileStmt', 'ctx': 'None'}
    returns = 'tuple'
    properties = ['C19']
    inline = True
    modifies = ['self.log']
    options = {'seq_len': {'self.log': 0}}

    def post(self, stmt, ctx, result):
        return probe_clauses(stmt, self.log)

    def raises(self, stmt, ctx):
        return {}


class TV_for(Contract):
    target = 'fpy2.ast.visitor:DefaultTransformVisitor._visit_for'
    params = {'self': 'OrderProbe', 'stmt': 'ForStmt', 'ctx': 'None'}
    returns = 'tuple'
    properties = ['C19']
    inline = True
    modifies = ['self.log']
    options = {'seq_len': {'self.log': 0}}

    def post(self, stmt, ctx, result):
        return probe_clauses(stmt, self.log)

    def raises(self, stmt, ctx):
        return {}


class TV_context(Contract):
    target = 'fpy2.ast.visitor:DefaultTransformVisitor._visit_context'
    params = {'self': 'OrderProbe', 'stmt': 'ContextStmt', 'ctx': 'None'}
    returns = 'tuple'
    properties = ['C19']
    inline = True
    modifies = ['self.log']
    options = {'seq_len': {'self.log': 0}}

    def post(self, stmt, ctx, result):
        return probe_clauses(stmt, self.log)

    def raises(self, stmt, ctx):
        return {}


class TV_assert(Contract):
    target = 'fpy2.ast.visitor:DefaultTransformVisitor._visit_assert'
    params = {'self': 'OrderProbe', 'stmt': 'AssertStmt', 'ctx': 'None'}
    returns = 'tuple'
    properties = ['C19']
    inline = True
    modifies = ['self.log']
    options = {'seq_len': {'self.log': 0}}

    def post(self, stmt, ctx, result):
        return probe_clauses(stmt, self.log)

    def raises(self, stmt, ctx):
        return {}


class TV_effect(Contract):
    target = 'fpy2.ast.visitor:DefaultTransformVisitor._visit_effect'
    params = {'self': 'OrderProbe', 'stmt': 'EffectStmt', 'ctx': 'None'}
    returns = 'tuple'
    properties = ['C19']
    inline = True
    modifies = ['self.log']
    options = {'seq_len': {'self.log': 0}}

    def post(self, stmt, ctx, result):
        return probe_clauses(stmt, self.log)

    def raises(self, stmt, ctx):
        return {}


class TV_return(Contract):
    target = 'fpy2.ast.visitor:DefaultTransformVisitor._visit_return'
    params = {'self': 'OrderProbe', 'stmt': 'ReturnStmt', 'ctx': 'None'}
    returns = 'tuple'
    properties = ['C19']
    inline = True
    modifies = ['self.log']
    options = {'seq_len': {'self.log': 0}}

    def post(self, stmt, ctx, result):
        return probe_clauses(stmt, self.log)

    def raises(self, stmt, ctx):
        return {}


class TV_pass(Contract):
    target = 'fpy2.ast.visitor:DefaultTransformVisitor._visit_pass'
    params = {'self': 'OrderProbe', 'stmt': 'PassStmt', 'ctx': 'None'}
    returns = 'tuple'
    properties = ['C19']
    inline = True
    modifies = ['self.log']
    options = {'seq_len': {'self.log': 0}}

    def post(self, stmt, ctx, result):
        return probe_clauses(stmt, self.log)

    def raises(self, stmt, ctx):
        return {}


class TV_nullaryop(Contract):
    target = 'fpy2.ast.visitor:DefaultTransformVisitor._visit_nullaryop'
    params = {'self': 'OrderProbe', 'e': 'NullaryOp', 'ctx': 'None'}
    returns = 'tuple'
    properties = ['C19']
    inline = True
    modifies = ['self.log']
    options = {'seq_len': {'self.log': 0}}

    def post(self, e, ctx, result):
        return probe_clauses(e, self.log)

    def raises(self, e, ctx):
        return {}


class TV_unaryop(Contract):
    target = 'fpy2.ast.visitor:DefaultTransformVisitor._visit_unaryop'
    params = {'self': 'OrderProbe', 'e': 'UnaryOp', 'ctx': 'None'}
    returns = 'tuple'
    properties = ['C19']
    inline = True
    modifies = ['self.log']
    options = {'seq_len': {'self.log': 0}}

    def post(self, e, ctx, result):
        return probe_clauses(e, self.log)

    def raises(self, e, ctx):
        return {}


class TV_binaryop(Contract):
    target = 'fpy2.ast.visitor:DefaultTransformVisitor._visit_binaryop'
    params = {'self': 'OrderProbe', 'e': 'BinaryOp', 'ctx': 'None'}
    returns = 'tuple'
    properties = ['C19']
    inline = True
    modifies = ['self.log']
    options = {'seq_len': {'self.log': 0}}

    def post(self, e, ctx, result):
        return probe_clauses(e, self.log)

    def raises(self, e, ctx):
        return {}


class TV_ternaryop(Contract):
    target = 'fpy2.ast.visitor:DefaultTransformVisitor._visit_ternaryop'
    params = {'self': 'OrderProbe', 'e': 'TernaryOp', 'ctx': 'None'}
    returns = 'tuple'
    properties = ['C19']
    inline = True
    modifies = ['self.log']
    options = {'seq_len': {'self.log': 0}}

    def post(self, e, ctx, result):
        return probe_clauses(e, self.log)

    def raises(self, e, ctx):
        return {}


class TV_list_ref(Contract):
    target = 'fpy2.ast.visitor:DefaultTransformVisitor._visit_list_ref'
    params = {'self': 'OrderProbe', 'e': 'ListRef', 'ctx': 'None'}
    returns = 'tuple'
    properties = ['C19']
    inline = True
    modifies = ['self.log']
    options = {'seq_len': {'self.log': 0}}

    def post(self, e, ctx, result):
        return probe_clauses(e, self.log)

    def raises(self, e, ctx):
        return {}


class TV_list_slice(Contract):
    target = 'fpy2.ast.visitor:DefaultTransformVisitor._visit_list_slice'
    params = {'self': 'OrderProbe', 'e': 'ListSlice', 'ctx': 'None'}
    returns = 'tuple'
    properties = ['C19']
    inline = True
    modifies = ['self.log']
    options = {'seq_len': {'self.log': 0}}

    def post(self, e, ctx, result):
        return probe_clauses(e, self.log)

    def raises(self, e, ctx):
        return {}


class TV_if_expr(Contract):
    target = 'fpy2.ast.visitor:DefaultTransformVisitor._visit_if_expr'
    params = {'self': 'OrderProbe', 'e': 'IfExpr', 'ctx': 'None'}
    returns = 'tuple'
    properties = ['C19']
    inline = True
    modifies = ['self.log']
    options = {'seq_len': {'self.log': 0}}

    def post(self, e, ctx, result):
        return probe_clauses(e, self.log)

    def raises(self, e, ctx):
        return {}


class TV_attribute(Contract):
    target = 'fpy2.ast.visitor:DefaultTransformVisitor._visit_attribute'
    params = {'self': 'OrderProbe', 'e': 'Attribute', 'ctx': 'None'}
    returns = 'tuple'
    properties = ['C19']
    inline = True
    modifies = ['self.log']
    options = {'seq_len': {'self.log': 0}}

    def post(self, e, ctx, result):
        return probe_clauses(e, self.log)

    def raises(self, e, ctx):
        return {}


class TV_indexed_assign_seq2(Contract):
    """BOUNDED STAND-IN: stmt.indices hold 2 elements"""
    target = 'fpy2.ast.visitor:DefaultTransformVisitor._visit_indexed_assign'
    params = {'self': 'OrderProbe', 'stmt': 'IndexedAssign', 'ctx': 'None'}
    returns = 'tuple'
    properties = ['C19']
    inline = True
    modifies = ['self.log']
    options = {'seq_len': {'self.log': 0, 'stmt.indices': 2}, 'bounded': 8}
    note = 'bounded stand-in: the sequence-valued fields of the node hold 2 elements'

    def post(self, stmt, ctx, result):
        return probe_clauses(stmt, self.log)

    def raises(self, stmt, ctx):
        return {}


class TV_naryop_seq2(Contract):
    """BOUNDED STAND-IN: e.args hold 2 elements"""
    target = 'fpy2.ast.visitor:DefaultTransformVisitor._visit_naryop'
    params = {'self': 'OrderProbe', 'e': 'NaryOp', 'ctx': 'None'}
    returns = 'tuple'
    properties = ['C19']
    inline = True
    modifies = ['self.log']
    options = {'seq_len': {'self.log': 0, 'e.args': 2}, 'bounded': 8}
    note = 'bounded stand-in: the sequence-valued fields of the node hold 2 elements'

    def post(self, e, ctx, result):
        return probe_clauses(e, self.log)

    def raises(self, e, ctx):
        return {}


class TV_call_seq2(Contract):
    """BOUNDED STAND-IN: e.args, e.kwargs hold 2 elements"""
    target = 'fpy2.ast.visitor:DefaultTransformVisitor._visit_call'
    params = {'self': 'OrderProbe', 'e': 'Call', 'ctx': 'None'}
    returns = 'tuple'
    properties = ['C19']
    inline = True
    modifies = ['self.log']
    options = {'seq_len': {'self.log': 0, 'e.args': 2, 'e.kwargs': 2}, 'bounded': 8}
    note = 'bounded stand-in: the sequence-valued fields of the node hold 2 elements'

    def post(self, e, ctx, result):
        return probe_clauses(e, self.log)

    def raises(self, e, ctx):
        return {}


class TV_compare_seq2(Contract):
    """BOUNDED STAND-IN: e.args hold 2 elements"""
    target = 'fpy2.ast.visitor:DefaultTransformVisitor._visit_compare'
    params = {'self': 'OrderProbe', 'e': 'Compare', 'ctx': 'None'}
    returns = 'tuple'
    properties = ['C19']
    inline = True
    modifies = ['self.log']
    options = {'seq_len': {'self.log': 0, 'e.args': 2}, 'bounded': 8}
    note = 'bounded stand-in: the sequence-valued fields of the node hold 2 elements'

    def post(self, e, ctx, result):
        return probe_clauses(e, self.log)

    def raises(self, e, ctx):
        return {}


class TV_tuple_expr_seq2(Contract):
    """BOUNDED STAND-IN: e.elts hold 2 elements"""
    target = 'fpy2.ast.visitor:DefaultTransformVisitor._visit_tuple_expr'
    params = {'self': 'OrderProbe', 'e': 'TupleExpr', 'ctx': 'None'}
    returns = 'tuple'
    properties = ['C19']
    inline = True
    modifies = ['self.log']
    options = {'seq_len': {'self.log': 0, 'e.elts': 2}, 'bounded': 8}
    note = 'bounded stand-in: the sequence-valued fields of the node hold 2 elements'

    def post(self, e, ctx, result):
        return probe_clauses(e, self.log)

    def raises(self, e, ctx):
        return {}


class TV_list_expr_seq2(Contract):
    """BOUNDED STAND-IN: e.elts hold 2 elements"""
    target = 'fpy2.ast.visitor:DefaultTransformVisitor._visit_list_expr'
    params = {'self': 'OrderProbe', 'e': 'ListExpr', 'ctx': 'None'}
    returns = 'tuple'
    properties = ['C19']
    inline = True
    modifies = ['self.log']
    options = {'seq_len': {'self.log': 0, 'e.elts': 2}, 'bounded': 8}
    note = 'bounded stand-in: the sequence-valued fields of the node hold 2 elements'

    def post(self, e, ctx, result):
        return probe_clauses(e, self.log)

    def raises(self, e, ctx):
        return {}


class TV_list_comp_seq2(Contract):
    """BOUNDED STAND-IN: e.iterables, e.targets hold 2 elements"""
    target = 'fpy2.ast.visitor:DefaultTransformVisitor._visit_list_comp'
    params = {'self': 'OrderProbe', 'e': 'ListComp', 'ctx': 'None'}
    returns = 'tuple'
    properties = ['C19']
    inline = True
    modifies = ['self.log']
    options = {'seq_len': {'self.log': 0, 'e.iterables': 2, 'e.targets': 2}, 'bounded': 8}
    note = 'bounded stand-in: the sequence-valued fields of the node hold 2 elements'

    def post(self, e, ctx, result):
        return probe_clauses(e, self.log)

    def raises(self, e, ctx):
        return {}


class DV_assign(Contract):
    target = 'fpy2.ast.visitor:DefaultVisitor._visit_assign'
    params = {'self': 'OrderProbeD', 'stmt': 'Assign', 'ctx': 'None'}
    returns = 'tuple'
    properties = ['C19']
    inline = True
    modifies = ['self.log']
    options = {'seq_len': {'self.log': 0}}

    def post(self, stmt, ctx, result):
        return probe_clauses(stmt, self.log)

    def raises(self, stmt, ctx):
        return {}


class DV_if1(Contract):
    target = 'fpy2.ast.visitor:DefaultVisitor._visit_if1'
    params = {'self': 'OrderProbeD', 'stmt': 'If1Stmt', 'ctx': 'None'}
    returns = 'tuple'
    properties = ['C19']
    inline = True
    modifies = ['self.log']
    options = {'seq_len': {'self.log': 0}}

    def post(self, stmt, ctx, result):
        return probe_clauses(stmt, self.log)

    def raises(self, stmt, ctx):
        return {}


class DV_if(Contract):
    target = 'fpy2.ast.visitor:DefaultVisitor._visit_if'
    params = {'self': 'OrderProbeD', 'stmt': 'IfStmt', 'ctx': 'None'}
    returns = 'tuple'
    properties = ['C19']
    inline = True
    modifies = ['self.log']
    options = {'seq_len': {'self.log': 0}}

    def post(self, stmt, ctx, result):
        return probe_clauses(stmt, self.log)

    def raises(self, stmt, ctx):
        return {}


class DV_while(Contract):
    target = 'fpy2.ast.visitor:DefaultVisitor._visit_while'
    params = {'self': 'OrderProbeD', 'stmt': 'WhileStmt', 'ctx': 'None'}
    returns = 'tuple'
    properties = ['C19']
    inline = True
    modifies = ['self.log']
    options = {'seq_len': {'self.log': 0}}

    def post(self, stmt, ctx, result):
        return probe_clauses(stmt, self.log)

    def raises(self, stmt, ctx):
        return {}


class DV_for(Contract):
    target = 'fpy2.ast.visitor:DefaultVisitor._visit_for'
    params = {'self': 'OrderProbeD', 'stmt': 'ForStmt', 'ctx': 'None'}
    returns = 'tuple'
    properties = ['C19']
    inline = True
    modifies = ['self.log']
    options = {'seq_len': {'self.log': 0}}

    def post(self, stmt, ctx, result):
        return probe_clauses(stmt, self.log)

    def raises(self, stmt, ctx):
        return {}


class DV_context(Contract):
    target = 'fpy2.ast.visitor:DefaultVisitor._visit_context'
    params = {'self': 'OrderProbeD', 'stmt': 'ContextStmt', 'ctx': 'None'}
    returns = 'tuple'
    properties = ['C19']
    inline = True
    modifies = ['self.log']
    options = {'seq_len': {'self.log': 0}}

    def post(self, stmt, ctx, result):
        return probe_clauses(stmt, self.log)

    def raises(self, stmt, ctx):
        return {}


class DV_assert(Contract):
    target = 'fpy2.ast.visitor:DefaultVisitor._visit_assert'
    params = {'self': 'OrderProbeD', 'stmt': 'AssertStmt', 'ctx': 'None'}
    returns = 'tuple'
    properties = ['C19']
    inline = True
    modifies = ['self.log']
    options = {'seq_len': {'self.log': 0}}

    def post(self, stmt, ctx, result):
        return probe_clauses(stmt, self.log)

    def raises(self, stmt, ctx):
        return {}


class DV_effect(Contract):
    target = 'fpy2.ast.visitor:DefaultVisitor._visit_effect'
    params = {'self': 'OrderProbeD', 'stmt': 'EffectStmt', 'ctx': 'None'}
    returns = 'tuple'
    properties = ['C19']
    inline = True
    modifies = ['self.log']
    options = {'seq_len': {'self.log': 0}}

    def post(self, stmt, ctx, result):
        return probe_clauses(stmt, self.log)

    def raises(self, stmt, ctx):
        return {}


class DV_return(Contract):
    target = 'fpy2.ast.visitor:DefaultVisitor._visit_return'
    params = {'self': 'OrderProbeD', 'stmt': 'ReturnStmt', 'ctx': 'None'}
    returns = 'tuple'
    properties = ['C19']
    inline = True
    modifies = ['self.log']
    options = {'seq_len': {'self.log': 0}}

    def post(self, stmt, ctx, result):
        return probe_clauses(stmt, self.log)

    def raises(self, stmt, ctx):
        return {}


class DV_pass(Contract):
    target = 'fpy2.ast.visitor:DefaultVisitor._visit_pass'
    params = {'self': 'OrderProbeD', 'stmt': 'PassStmt', 'ctx': 'None'}
    returns = 'tuple'
    properties = ['C19']
    inline = True
    modifies = ['self.log']
    options = {'seq_len': {'self.log': 0}}

    def post(self, stmt, ctx, result):
        return probe_clauses(stmt, self.log)

    def raises(self, stmt, ctx):
        return {}


class DV_nullaryop(Contract):
    target = 'fpy2.ast.visitor:DefaultVisitor._visit_nullaryop'
    params = {'self': 'OrderProbeD', 'e': 'NullaryOp', 'ctx': 'None'}
    returns = 'tuple'
    properties = ['C19']
    inline = True
    modifies = ['self.log']
    options = {'seq_len': {'self.log': 0}}

    def post(self, e, ctx, result):
        return probe_clauses(e, self.log)

    def raises(self, e, ctx):
        return {}


class DV_unaryop(Contract):
    target = 'fpy2.ast.visitor:DefaultVisitor._visit_unaryop'
    params = {'self': 'OrderProbeD', 'e': 'UnaryOp', 'ctx': 'None'}
    returns = 'tuple'
    properties = ['C19']
    inline = True
    modifies = ['self.log']
    options = {'seq_len': {'self.log': 0}}

    def post(self, e, ctx, result):
        return probe_clauses(e, self.log)

    def raises(self, e, ctx):
        return {}


class DV_binaryop(Contract):
    target = 'fpy2.ast.visitor:DefaultVisitor._visit_binaryop'
    params = {'self': 'OrderProbeD', 'e': 'BinaryOp', 'ctx': 'None'}
    returns = 'tuple'
    properties = ['C19']
    inline = True
    modifies = ['self.log']
    options = {'seq_len': {'self.log': 0}}

    def post(self, e, ctx, result):
        return probe_clauses(e, self.log)

    def raises(self, e, ctx):
        return {}


class DV_ternaryop(Contract):
    target = 'fpy2.ast.visitor:DefaultVisitor._visit_ternaryop'
    params = {'self': 'OrderProbeD', 'e': 'TernaryOp', 'ctx': 'None'}
    returns = 'tuple'
    properties = ['C19']
    inline = True
    modifies = ['self.log']
    options = {'seq_len': {'self.log': 0}}

    def post(self, e, ctx, result):
        return probe_clauses(e, self.log)

    def raises(self, e, ctx):
        return {}


class DV_list_ref(Contract):
    target = 'fpy2.ast.visitor:DefaultVisitor._visit_list_ref'
    params = {'self': 'OrderProbeD', 'e': 'ListRef', 'ctx': 'None'}
    returns = 'tuple'
    properties = ['C19']
    inline = True
    modifies = ['self.log']
    options = {'seq_len': {'self.log': 0}}

    def post(self, e, ctx, result):
        return probe_clauses(e, self.log)

    def raises(self, e, ctx):
        return {}


class DV_list_slice(Contract):
    target = 'fpy2.ast.visitor:DefaultVisitor._visit_list_slice'
    params = {'self': 'OrderProbeD', 'e': 'ListSlice', 'ctx': 'None'}
    returns = 'tuple'
    properties = ['C19']
    inline = True
    modifies = ['self.log']
    options = {'seq_len': {'self.log': 0}}

    def post(self, e, ctx, result):
        return probe_clauses(e, self.log)

    def raises(self, e, ctx):
        return {}


class DV_if_expr(Contract):
    target = 'fpy2.ast.visitor:DefaultVisitor._visit_if_expr'
    params = {'self': 'OrderProbeD', 'e': 'IfExpr', 'ctx': 'None'}
    returns = 'tuple'
    properties = ['C19']
    inline = True
    modifies = ['self.log']
    options = {'seq_len': {'self.log': 0}}

    def post(self, e, ctx, result):
        return probe_clauses(e, self.log)

    def raises(self, e, ctx):
        return {}


class DV_attribute(Contract):
    target = 'fpy2.ast.visitor:DefaultVisitor._visit_attribute'
    params = {'self': 'OrderProbeD', 'e': 'Attribute', 'ctx': 'None'}
    returns = 'tuple'
    properties = ['C19']
    inline = True
    modifies = ['self.log']
    options = {'seq_len': {'self.log': 0}}

    def post(self, e, ctx, result):
        return probe_clauses(e, self.log)

    def raises(self, e, ctx):
        return {}


class DV_indexed_assign_seq2(Contract):
    """BOUNDED STAND-IN: stmt.indices hold 2 elements"""
    target = 'fpy2.ast.visitor:DefaultVisitor._visit_indexed_assign'
    params = {'self': 'OrderProbeD', 'stmt': 'IndexedAssign', 'ctx': 'None'}
    returns = 'tuple'
    properties = ['C19']
    inline = True
    modifies = ['self.log']
    options = {'seq_len': {'self.log': 0, 'stmt.indices': 2}, 'bounded': 8}
    note = 'bounded stand-in: the sequence-valued fields of the node hold 2 elements'

    def post(self, stmt, ctx, result):
        return probe_clauses(stmt, self.log)

    def raises(self, stmt, ctx):
        return {}


class DV_naryop_seq2(Contract):
    """BOUNDED STAND-IN: e.args hold 2 elements"""
    target = 'fpy2.ast.visitor:DefaultVisitor._visit_naryop'
    params = {'self': 'OrderProbeD', 'e': 'NaryOp', 'ctx': 'None'}
    returns = 'tuple'
    properties = ['C19']
    inline = True
    modifies = ['self.log']
    options = {'seq_len': {'self.log': 0, 'e.args': 2}, 'bounded': 8}
    note = 'bounded stand-in: the sequence-valued fields of the node hold 2 elements'

    def post(self, e, ctx, result):
        return probe_clauses(e, self.log)

    def raises(self, e, ctx):
        return {}


class DV_call_seq2(Contract):
    """BOUNDED STAND-IN: e.args, e.kwargs hold 2 elements"""
    target = 'fpy2.ast.visitor:DefaultVisitor._visit_call'
    params = {'self': 'OrderProbeD', 'e': 'Call', 'ctx': 'None'}
    returns = 'tuple'
    properties = ['C19']
    inline = True
    modifies = ['self.log']
    options = {'seq_len': {'self.log': 0, 'e.args': 2, 'e.kwargs': 2}, 'bounded': 8}
    note = 'bounded stand-in: the sequence-valued fields of the node hold 2 elements'

    def post(self, e, ctx, result):
        return probe_clauses(e, self.log)

    def raises(self, e, ctx):
        return {}


class DV_compare_seq2(Contract):
    """BOUNDED STAND-IN: e.args hold 2 elements"""
    target = 'fpy2.ast.visitor:DefaultVisitor._visit_compare'
    params = {'self': 'OrderProbeD', 'e': 'Compare', 'ctx': 'None'}
    returns = 'tuple'
    properties = ['C19']
    inline = True
    modifies = ['self.log']
    options = {'seq_len': {'self.log': 0, 'e.args': 2}, 'bounded': 8}
    note = 'bounded stand-in: the sequence-valued fields of the node hold 2 elements'

    def post(self, e, ctx, result):
        return probe_clauses(e, self.log)

    def raises(self, e, ctx):
        return {}


class DV_tuple_expr_seq2(Contract):
    """BOUNDED STAND-IN: e.elts hold 2 elements"""
    target = 'fpy2.ast.visitor:DefaultVisitor._visit_tuple_expr'
    params = {'self': 'OrderProbeD', 'e': 'TupleExpr', 'ctx': 'None'}
    returns = 'tuple'
    properties = ['C19']
    inline = True
    modifies = ['self.log']
    options = {'seq_len': {'self.log': 0, 'e.elts': 2}, 'bounded': 8}
    note = 'bounded stand-in: the sequence-valued fields of the node hold 2 elements'

    def post(self, e, ctx, result):
        return probe_clauses(e, self.log)

    def raises(self, e, ctx):
        return {}


class DV_list_expr_seq2(Contract):
    """BOUNDED STAND-IN: e.elts hold 2 elements"""
    target = 'fpy2.ast.visitor:DefaultVisitor._visit_list_expr'
    params = {'self': 'OrderProbeD', 'e': 'ListExpr', 'ctx': 'None'}
    returns = 'tuple'
    properties = ['C19']
    inline = True
    modifies = ['self.log']
    options = {'seq_len': {'self.log': 0, 'e.elts': 2}, 'bounded': 8}
    note = 'bounded stand-in: the sequence-valued fields of the node hold 2 elements'

    def post(self, e, ctx, result):
        return probe_clauses(e, self.log)

    def raises(self, e, ctx):
        return {}


class DV_list_comp_seq2(Contract):
    """BOUNDED STAND-IN: e.iterables hold 2 elements"""
    target = 'fpy2.ast.visitor:DefaultVisitor._visit_list_comp'
    params = {'self': 'OrderProbeD', 'e': 'ListComp', 'ctx': 'None'}
    returns = 'tuple'
    properties = ['C19']
    inline = True
    modifies = ['self.log']
    options = {'seq_len': {'self.log': 0, 'e.iterables': 2}, 'bounded': 8}
    note = 'bounded stand-in: the sequence-valued fields of the node hold 2 elements'

    def post(self, e, ctx, result):
        return probe_clauses(e, self.log)

    def raises(self, e, ctx):
        return {}
