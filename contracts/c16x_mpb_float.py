"""C16 (second part): MPBFloatFormat = MPSFloatFormat cut off at neg_maxval .. pos_maxval."""
from speclib import *
from spec.real import *
from spec.floats import *
from spec.c16 import *
from spec.c16x import *


class MPBFloatFormat_representable_in(Contract):
    target = 'fpy2.number.context.mpb_float:MPBFloatFormat.representable_in'
    params = {'self': 'MPBFloatFormat', 'x': 'RealFloat | Float'}
    returns = 'bool'
    properties = ['C16']
    # the unbounded member test and the ordinals are only passed through: uninterpreted here (congruence suffices)
    options = {'opaque': {'mps_ord': ['all', 'int']}, 'light_axioms': True}
    # RealFloat.__le__ on two RealFloats is inlined down to RealFloat.compare (contract over dy_lt); the C14 contract of
    # __le__ speaks about a ghost grid and says nothing usable here
    no_use = ['RealFloat.__le__']

    def pre(self, x):
        return {'bounds': mpbfl_bounds(self)}

    def post(self, x, result):
        # B4: member of the unbounded MPS value set and within [neg_maxval, pos_maxval]
        return {'B4_member': result == mpbfl_inF(self, x)}

    def raises(self, x):
        return {}


class MPBFloatFormat_to_ordinal(Contract):
    target = 'fpy2.number.context.mpb_float:MPBFloatFormat.to_ordinal'
    params = {'self': 'MPBFloatFormat', 'x': 'Float', 'infval': 'bool'}
    returns = 'int'
    properties = ['C16']
    options = {'opaque': {'mps_ord': ['all', 'int']}, 'light_axioms': True}

    def pre(self, x, infval):
        return {'bounds': mpbfl_bounds(self)}

    def post(self, x, infval, result):
        return {
            # B5: the ordinal of a finite member is its ordinal in the unbounded format
            'B5_ord': implies(fl_finite(x), result == mps_ord(self._mps_fmt, x._real)),
            # B5 (contiguous range): the ordinals of the finite members lie in [ord(neg_maxval), ord(pos_maxval)]
            # (needs: the MPS ordinal is monotone on arbitrary, not only canonical, representations)
            'B5_range': implies(fl_finite(x), self._neg_maxval_ord <= result and result <= self._pos_maxval_ord),
            # with infval: the infinities sit one step beyond the extreme ordinals
            'pos_inf': implies(x._isinf and not x._real._s, result == self._pos_maxval_ord + 1),
            'neg_inf': implies(x._isinf and x._real._s, result == self._neg_maxval_ord - 1),
        }

    def raises(self, x, infval):
        return {
            'ValueError': not mpbfl_inF(self, x),
            'TypeError': mpbfl_inF(self, x) and (x._isnan or (x._isinf and not infval)),
        }


class MPBFloatFormat_from_ordinal(Contract):
    target = 'fpy2.number.context.mpb_float:MPBFloatFormat.from_ordinal'
    params = {'self': 'MPBFloatFormat', 'x': 'int', 'infval': 'bool'}
    returns = 'Float'
    properties = ['C16']
    options = {'opaque': {'mps_ord': ['all', 'int'], 'mps_canonical': ['all', 'bool']}, 'light_axioms': True}

    def pre(self, x, infval):
        return {'bounds': mpbfl_bounds(self)}

    def post(self, x, infval, result):
        r = result
        lo = self._neg_maxval_ord
        hi = self._pos_maxval_ord
        inr = lo <= x and x <= hi
        return {
            # B5: the ordinals of the finite members are exactly the contiguous range [ord(neg_maxval), ord(pos_maxval)]
            'finite': implies(inr, fl_finite(r)),
            'wf': implies(inr, r._real._c >= 0),
            'mps_member': implies(inr, mps_inF(self._mps_fmt, r)),
            'B5_to_from': implies(inr, mps_ord(self._mps_fmt, r._real) == x),
            'canonical': implies(inr and x != 0, mps_canonical(self._mps_fmt, r._real)),
            'pos_inf': implies(x > hi, r._isinf and not r._isnan and not r._real._s),
            'neg_inf': implies(x < lo, r._isinf and not r._isnan and r._real._s),
        }

    def raises(self, x, infval):
        lo = self._neg_maxval_ord
        hi = self._pos_maxval_ord
        # the sentinel ordinals hi + 1 / lo - 1 exist only with infval on a format that has infinities
        return {'ValueError': ite(infval and self.enable_inf, x > hi + 1 or x < lo - 1, x > hi or x < lo)}


class MPBFloatFormat_normalize(Contract):
    target = 'fpy2.number.context.mpb_float:MPBFloatFormat.normalize'
    params = {'self': 'MPBFloatFormat', 'x': 'Float'}
    returns = 'Float'
    properties = ['C16']
    options = {'opaque': {'mps_ord': ['all', 'int'], 'mps_canonical': ['all', 'bool']}, 'light_axioms': True}

    def pre(self, x):
        return {'bounds': mpbfl_bounds(self)}

    def post(self, x, result):
        r = result
        fin = fl_finite(x)
        return {
            'nan': r._isnan == x._isnan,
            'inf': r._isinf == x._isinf,
            'sign': r._real._s == x._real._s,
            # the sign of zero survives: normalize(-0) is -0, normalize(+0) is +0
            'zero_sign': implies(fin and x._real._c == 0, r._real._c == 0 and r._real._s == x._real._s
                                 and not r._isnan and not r._isinf),
            'B6_value': implies(fin, dy_eqv(r._real, x._real)),
            'B6_canonical': implies(fin, mps_canonical(self._mps_fmt, r._real)),
            'ord_preserved': implies(fin, mps_ord(self._mps_fmt, r._real) == mps_ord(self._mps_fmt, x._real)),
        }

    def raises(self, x):
        return {'TypeError': not mpbfl_inF(self, x)}


class MPS_ord_sign(Lemma):
    """the ordinal of a finite MPS member has the sign of the member and vanishes exactly on the zeros"""
    params = {'self': 'MPSFloatFormat', 'x': 'RealFloat'}
    properties = ['C16']
    options = {'split_heavy': True}

    def pre(self, x):
        return {'pmax': self.pmax >= 1, 'member': mps_fin_member(self, x)}

    def post(self, x):
        fork(x._c == 0)
        fork(e_of(x) - self.pmax + 1 >= mps_expmin(self))
        return {
            'mag_nonneg': mps_ord_mag(self, x) >= 0,
            'zero_iff': (mps_ord_mag(self, x) == 0) == (x._c == 0),
            'pos': implies(not x._s, mps_ord(self, x) >= 0),
            'neg': implies(x._s, mps_ord(self, x) <= 0),
            'ord_zero_iff': (mps_ord(self, x) == 0) == (x._c == 0),
        }


class MPBFloatFormat_minval(Contract):
    target = 'fpy2.number.context.mpb_float:MPBFloatFormat.minval'
    params = {'self': 'MPBFloatFormat', 's': 'bool'}
    returns = 'Float'
    properties = ['C16']
    options = {'opaque': {'mps_ord': ['all', 'int']}, 'light_axioms': True}

    def pre(self, s):
        return {'bounds': mpbfl_bounds(self)}

    def post(self, s, result):
        r = result
        return {
            'finite': fl_finite(r),
            'sign': r._real._s == s,
            'mps_member': mps_inF(self._mps_fmt, r),
            # B6: least non-zero magnitude = ordinal +/-1
            'B6_ord': mps_ord(self._mps_fmt, r._real) == ite(s, -1, 1),
            # ... and it is a value of this format whenever the format has a non-zero value of that sign at all
            # (ordinal within [ord(neg_maxval), ord(pos_maxval)])
            'B6_in_range': implies(ite(s, self.neg_maxval._c > 0, self.pos_maxval._c > 0),
                                   self._neg_maxval_ord <= mps_ord(self._mps_fmt, r._real)
                                   and mps_ord(self._mps_fmt, r._real) <= self._pos_maxval_ord),
        }

    def raises(self, s):
        return {}


class MPBFloatFormat_maxval(Contract):
    target = 'fpy2.number.context.mpb_float:MPBFloatFormat.maxval'
    params = {'self': 'MPBFloatFormat', 's': 'bool'}
    returns = 'Float'
    properties = ['C16']
    options = {'opaque': {'mps_ord': ['all', 'int']}, 'light_axioms': True}

    def pre(self, s):
        return {'bounds': mpbfl_bounds(self)}

    def post(self, s, result):
        r = result
        return {
            'finite': fl_finite(r),
            # B6: the extreme member of the requested sign
            'B6_pos': implies(not s, same_real(r._real, self.pos_maxval)),
            'B6_neg': implies(s, same_real(r._real, self.neg_maxval)),
            'member': mpbfl_inF(self, r),
            'B6_ord': mps_ord(self._mps_fmt, r._real) == ite(s, self._neg_maxval_ord, self._pos_maxval_ord),
        }

    def raises(self, s):
        return {}


class MPBFloatFormat_infval(Contract):
    target = 'fpy2.number.context.mpb_float:MPBFloatFormat.infval'
    params = {'self': 'MPBFloatFormat', 's': 'bool'}
    returns = 'Float'
    properties = ['C16']
    # RealFloat.next_away_zero (normalize + increment, inlined) against the MPS ordinal: does not finish within 300 s
    # (no verdict on any path yet): thorough tier only
    options = {'split_heavy': True, 'symbolic_tier': 'thorough'}

    def pre(self, s):
        return {'bounds': mpbfl_bounds(self)}

    def post(self, s, result):
        r = result
        return {
            'finite': fl_finite(r),
            'sign': r._real._s == s,
            # the "next" value after the maximum: a member of the unbounded format, one ordinal step beyond
            'mps_member': mps_inF(self._mps_fmt, r),
            'pos': implies(not s, mps_ord(self._mps_fmt, r._real) == self._pos_maxval_ord + 1),
            'neg': implies(s, mps_ord(self._mps_fmt, r._real) == self._neg_maxval_ord - 1),
        }

    def raises(self, s):
        return {}
