"""
C19 / W1, W3: forwarding a statement path across an edit log
(fpy2/transform/cursor.py: _forward_stmt, _forward_block).

The two functions are mutually recursive on the depth of the path; each is
verified against its own contract using the other's contract at the call
(partial correctness; `decreases` gives the termination measure).
"""
from speclib import *
from spec.c19 import *


class forward_stmt(Contract):
    target = 'fpy2.transform.cursor:_forward_stmt'
    params = {'path': 'StmtPath', 'edits': 'tuple[Edit, ...]', 'leaf': 'StmtPath'}
    returns = 'tuple[FuncBody | SubBlock, int, Edit | None]'
    properties = ['C19']
    # the loop `for e in edits` (loop 0 of the function): variables assigned in its body
    loop_types = {0: {'shift': 'int', 'containing': 'Edit | None'}}

    def inv0(self, path, edits, shift, containing, _i):
        blk = path.parent
        idx = path.index
        c = cont_upto(edits, blk, idx, _i)
        return {
            # shift = sum over the edits seen so far that lie wholly before the statement
            'shift': shift == shift_upto(edits, blk, idx, _i),
            # containing = the last edit seen so far that consumes the statement
            'cont_none': (containing is None) == (c == -1),
            'cont_range': -1 <= c and c < _i,
            'cont_edit': True if containing is None else
                         (same_edit(containing, edits[c]) if (0 <= c and c < _i) else False),
        }

    def post(self, path, edits, leaf, result):
        blk, idx, edit = result
        n = len(edits)
        c = cont_of(edits, path.parent, path.index)
        s = shift_of(edits, path.parent, path.index)
        return {
            # the enclosing block, forwarded
            'block': blk == fwd_block(edits, path.parent),
            # an edit is reported iff one consumes the statement, and it is that edit (the last such)
            'edit_iff_consumed': (edit is not None) == consumed(edits, path.parent, path.index),
            'edit_is_containing': True if edit is None else
                                  (same_edit(edit, edits[c]) if (0 <= c and c < n) else False),
            # a surviving statement lands at its splice position
            'index_survivor': implies(c == -1, idx == pos_of(edits, path.parent, path.index)),
            # a consumed statement lands at the start of the run that replaced it
            'index_consumed': True if edit is None else
                              ((idx == edits[c].index + s) if (0 <= c and c < n) else False),
        }

    def raises(self, path, edits, leaf):
        # only when a statement enclosing the path was itself rewritten
        return {'TransformReferenceError': anc_rewritten(edits, path.parent)}

    def decreases(self, path, edits, leaf):
        # termination of the mutual recursion: (block of the path, rank); _forward_block has rank 0
        return (path.parent, 1)


class forward_block(Contract):
    target = 'fpy2.transform.cursor:_forward_block'
    params = {'block': 'FuncBody | SubBlock', 'edits': 'tuple[Edit, ...]', 'leaf': 'StmtPath'}
    returns = 'FuncBody | SubBlock'
    properties = ['C19']

    def post(self, block, edits, leaf, result):
        return {
            'block': result == fwd_block(edits, block),
            'body_is_body': implies(isinstance(block, FuncBody), result == block),
            'same_kind': isinstance(result, FuncBody) == isinstance(block, FuncBody),
        }

    def raises(self, block, edits, leaf):
        # an ancestor that was rewritten is a reference error, never a position
        return {'TransformReferenceError': anc_rewritten(edits, block)}

    def decreases(self, block, edits, leaf):
        return (block, 0)
