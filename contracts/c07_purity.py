"""
C07 / O4 (purity table): the two expression / statement kinds of FPy that can change observable state are a call
(of an unknown, impure or foreign callee) and an indexed assignment into an argument or a free variable.
`_Purity` must never let them pass: if `_visit_call` / `_visit_indexed_assign` return normally, the node is harmless.
Every other node kind only recurses (DefaultVisitor), i.e. is pure iff its children are.

ASSUMED (trusted): the recursive sub-visits of DefaultVisitor (may raise _ImpureError), Purity.analyze(callee)
(uninterpreted: pure_fn).  NOTE: evaluation that can only RAISE (xs[i] out of range) counts as pure here; removing
it can only turn a raising program into a returning one, which C07 allows.
"""
from speclib import *
from spec.c07 import *


class DefaultVisitor__visit_call(Contract):
    target = 'fpy2.ast.visitor:DefaultVisitor._visit_call'
    params = {'self': '_Purity', 'e': 'Call', 'ctx': 'None'}
    returns = 'None'
    properties = ['C07']
    trusted = True
    may_raise = ['_ImpureError']
    note = 'ASSUMED: the recursive visit of the call arguments returns None or raises _ImpureError'


class DefaultVisitor__visit_indexed_assign(Contract):
    target = 'fpy2.ast.visitor:DefaultVisitor._visit_indexed_assign'
    params = {'self': '_Purity', 'stmt': 'Key[UseSite]', 'ctx': 'None'}
    returns = 'None'
    properties = ['C07']
    trusted = True
    may_raise = ['_ImpureError']
    note = 'ASSUMED: the recursive visit of the index / value expressions returns None or raises _ImpureError'


class Purity_analyze(Contract):
    target = 'fpy2.analysis.purity:Purity.analyze'
    params = {'func': 'FuncDefM', 'def_use': 'None'}
    returns = 'bool'
    properties = ['C07']
    trusted = True
    may_raise = ['CallGraphError']
    note = 'ASSUMED: Purity.analyze(callee) is the uninterpreted predicate pure_fn(callee) (or CallGraphError on a cycle)'

    def post(self, func, def_use, result):
        return {'pure': result == ghost_pred('pure_fn', func)}


class Purity__visit_call(Contract):
    target = 'fpy2.analysis.purity:_Purity._visit_call'
    params = {'self': '_Purity', 'e': 'Call', 'ctx': 'None'}
    overrides = {'e.fn': 'None | Function | Primitive | RoundingMode', 'e.fn.ast': 'FuncDefM'}
    split = ['e.fn']
    returns = 'None'
    properties = ['C07']
    may_raise = ['_ImpureError', 'CallGraphError']
    note = ('callee kinds: unresolved (None), @fpy Function, Primitive, any other foreign object (RoundingMode stands for it); '
            'the Context-constructor arm (`type() if issubclass(e.fn, Context)`, assumed pure by the code) is not covered')

    def post(self, e, result):
        k = cls_name(e.fn)
        return {
            # a call only passes as pure when the callee is a pure @fpy function or a primitive declared pure
            'callee_known': k == 'Function' or k == 'Primitive',
            'function_pure': ghost_pred('pure_fn', e.fn.ast) if k == 'Function' else True,
            'primitive_pure': e.fn.pure if k == 'Primitive' else True,
        }


class Purity__visit_indexed_assign(Contract):
    target = 'fpy2.analysis.purity:_Purity._visit_indexed_assign'
    params = {'self': '_Purity', 'stmt': 'Key[UseSite]', 'ctx': 'None'}
    overrides = {'self.def_use': 'DUModel'}
    returns = 'None'
    properties = ['C07']
    may_raise = ['_ImpureError']
    options = {'key_attrs': 'spec.c07:KEY_ATTRS'}

    def post(self, stmt, result):
        d = map_val(self.def_use.use_to_def, stmt)
        s = key_attr(d, 'site')
        return {
            # a store into an argument or a free variable (a definition sited at an Argument / the FuncDef) never passes
            'no_store_into_inputs': not (key_isa(d, 'AssignDef') and (key_isa(s, 'Argument') or key_isa(s, 'FuncDef'))),
        }

    def raises(self, stmt):
        return {'KeyError': not (stmt in self.def_use.use_to_def)}
