"""
C15 extension: `SyntaxCheckInstance._visit_function` / `analyze`, `SyntaxCheck.check`, and the decorator flow.

    _visit_function(func, ctx)  checks func.body in  ctx.env + self.free_vars + {a.name | a in func.args}
                                (nothing else is in scope at the start of the body) and returns the block's result
    analyze()                   = _visit_function(self.func, <empty env, live, within_call=False>)
    SyntaxCheck.check(func, free_vars=FV)  builds the instance on FV and runs analyze
"""
from speclib import *
from spec.c15 import *
from spec.c15x import *


class SC__visit_function(Contract):
    target = 'fpy2.analysis.syntax_check:SyntaxCheckInstance._visit_function'
    params = {'self': 'SyntaxCheckInstance', 'func': 'FuncDef', 'ctx': '_Ctx'}
    overrides = {'func.args': 'KeySeq[Argument]', 'func.body': 'StmtBlock', 'func.body.stmts': 'KeySeq[Stmt]'}
    returns = '_Env'
    properties = ['C15']
    modifies = ['self.free_var_args']
    may_raise = ['FPySyntaxError']
    options = {'key_attrs': 'spec.c15x:C15X_KEY_ATTRS', 'call_counts': {'SyntaxCheckInstance._visit_block': 1}}
    note = ('two loops (the symbolic set self.free_vars; func.args of symbolic length) then the body block by contract.  '
            'Arguments are abstract nodes whose `name` is a NamedId (an argument named `_` (UnderscoreId) binds nothing: '
            'that arm of the isinstance test is not explored, see the bounded companion contract)')

    def axioms(self, func):
        return arg_fold_def(func)

    def inv0(self, func, ctx, env, done, old):
        return dict(ctx_frame(ctx, old.ctx),
                    terminated=env.terminated == ctx.env.terminated,
                    names=forall_keys('NamedId', lambda k: bound(env, k) == (bound(ctx.env, k) or (k in done))))

    def inv1(self, func, ctx, env, done, old):
        return dict(ctx_frame(ctx, old.ctx),
                    terminated=env.terminated == ctx.env.terminated,
                    names=forall_keys('NamedId', lambda k: bound(env, k) ==
                                      (bound(ctx.env, k) or (k in self.free_vars) or arg_prefix(func, done, k))))

    def post(self, func, ctx, result, old):
        return dict(ctx_frame(ctx, old.ctx),
                    live=implies(live(ctx) and not term_block(func.body), not result.terminated),
                    # names in scope after the body: only what was in scope at its start or what the body defines;
                    # at its start: ctx.env, the free variables, the arguments -- nothing else
                    da=implies(live(ctx) and not result.terminated, forall_keys('NamedId', lambda k: implies(
                        bound(result, k),
                        term_block(func.body) or bound(ctx.env, k) or (k in self.free_vars) or arg_names(func, k)
                        or gen_block(func.body, k)))))


class SC_analyze(Contract):
    target = 'fpy2.analysis.syntax_check:SyntaxCheckInstance.analyze'
    params = {'self': 'SyntaxCheckInstance'}
    overrides = {'self.func.args': 'KeySeq[Argument]', 'self.func.body': 'StmtBlock', 'self.func.body.stmts': 'KeySeq[Stmt]'}
    returns = 'set[NamedId]'
    properties = ['C15']
    modifies = ['self.free_var_args']
    may_raise = ['FPySyntaxError']
    options = {'key_attrs': 'spec.c15x:C15X_KEY_ATTRS', 'call_counts': {'SyntaxCheckInstance._visit_function': 1}}
    note = ('the function is checked exactly once, starting from `_Ctx.default()` = the EMPTY live environment with '
            'within_call=False (pre@_visit_function-free: the start context is built here, its content is proved below via '
            'the callee post instantiated on it); returns the recorded free-variable uses')

    def post(self, result):
        return {'result': forall_keys('NamedId', lambda k: (k in result) == (k in self.free_var_args))}


class SyntaxCheck_check(Contract):
    target = 'fpy2.analysis.syntax_check:SyntaxCheck.check'
    params = {'func': 'FuncDef', 'free_vars': 'set[NamedId]', 'ignore_unknown': 'bool', 'allow_wildcard': 'bool'}
    overrides = {'func.args': 'KeySeq[Argument]', 'func.body': 'StmtBlock', 'func.body.stmts': 'KeySeq[Stmt]'}
    returns = 'set[NamedId]'
    properties = ['C15']
    may_raise = ['FPySyntaxError']
    options = {'key_attrs': 'spec.c15x:C15X_KEY_ATTRS', 'call_counts': {'SyntaxCheckInstance.analyze': 1}}
    note = ('the configuration of the decorator: an explicit `free_vars` set (the `free_vars is None` arm, used by '
            'transforms to re-validate an assembled function, reads func.free_vars / func.env and is not covered).  '
            'check builds a fresh instance on exactly (func, free_vars, ignore_unknown, allow_wildcard) and runs analyze '
            'once; it raises nothing but FPySyntaxError (the isinstance guard is dead for a FuncDef)')

    def post(func, result):
        return {}
