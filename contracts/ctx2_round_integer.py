"""C01 context layer (wave 2): Context.round_integer = round_at(x, -1) for the families with a largest value."""
from speclib import *
from spec.real import *
from spec.floats import *
from spec.ctx import *
from fpy2.number.round import RoundingMode


class MPBFloatContext_round_integer(Contract):
    target = 'fpy2.number.context.context:Context.round_integer'
    params = {'self': 'MPBFloatContext', 'x': 'RealFloat | Float'}
    returns = 'Float'
    properties = ['C01']
    inline = True            # one contract per receiver class; never used modularly
    binds = {'result._ctx': 'self'}
    options = {'noax_first_ms': 8000}

    def pre(self, x):
        return {'deterministic': self.num_randbits is not None and self.num_randbits == 0}

    def post(self, x, result):
        return mpb_post(self, x, -1, False, result)

    def raises(self, x):
        return mpb_raises(self, x, -1, False)


class MPBFixedContext_round_integer(Contract):
    target = 'fpy2.number.context.context:Context.round_integer'
    params = {'self': 'MPBFixedContext', 'x': 'RealFloat | Float'}
    returns = 'Float'
    properties = ['C01']
    inline = True
    binds = {'result._ctx': 'self'}
    options = {'noax_first_ms': 8000}

    def pre(self, x):
        return {'deterministic': self.num_randbits is not None and self.num_randbits == 0,
                'fmt_ordinals': mpbx_ordinals(self)}

    def post(self, x, result):
        return mpbx_post(self, x, -1, False, result)

    def raises(self, x):
        return mpbx_raises(self, x, -1, False)
