"""
C01 context layer (wave 2): construction of the EFloat family.  The derived MPB format has exactly the EFloat
format's finite value set (p = nbits - es digits, emin, largest value = the largest finite code of the nan kind),
and EFloatContext.__init__ establishes inv_EFloatContext, raising exactly on invalid parameters.
"""
from speclib import *
from spec.real import *
from spec.floats import *
from spec.ctx import *
from spec.ctx2 import *
from fpy2.number.round import RoundingMode


class efloat__format_is_valid(Contract):
    target = 'fpy2.number.context.efloat:_format_is_valid'
    params = {'es': 'int', 'nbits': 'int', 'enable_inf': 'bool', 'nan_kind': 'EFloatNanKind'}
    returns = 'bool'
    properties = ['C01']
    split = ['nan_kind']

    def post(self, es, nbits, enable_inf, nan_kind, result):
        # valid <=> the widths make sense, the zero code is finite, IEEE_754 has room for both infinity and NaN
        return {'valid': result == ef2_valid(es, nbits, enable_inf, nan_kind.name)}

    def raises(self, es, nbits, enable_inf, nan_kind):
        return {}


class efloat__binade_max(Contract):
    target = 'fpy2.number.context.efloat:_binade_max'
    params = {'p': 'int', 'emin': 'int', 'e': 'int'}
    returns = 'RealFloat'
    properties = ['C01']

    def pre(self, p, emin, e):
        return {'p': p >= 1}

    def post(self, p, emin, e, result):
        sh = emin - e
        return {
            # the largest value of normalized exponent e in the (p, emin) format: all digits one, cut off at expmin
            'sign': not result._s,
            'normal': implies(e >= emin, result._exp == e - p + 1 and result._c == pow2(p) - 1),
            'subnormal_exp': implies(e < emin, result._exp == emin - p + 1),
            'subnormal_c': (result._c == (pow2(p - sh) - 1 if sh <= p else 0)) if sh > 0 else True,
            'flags': result._flags._flags == 0,
        }

    def raises(self, p, emin, e):
        return {}


class efloat__ext_to_mpb_fmt(Contract):
    target = 'fpy2.number.context.efloat:_ext_to_mpb_fmt'
    params = {'es': 'int', 'nbits': 'int', 'enable_inf': 'bool', 'nan_kind': 'EFloatNanKind', 'eoffset': 'int'}
    returns = 'MPBFloatFormat'
    properties = ['C01']
    split = ['nan_kind', 'enable_inf']
    # next_towards_zero (normalise to p digits, decrement, renormalise) over symbolic widths does not go through the
    # solver in the time available: bounded stand-in, every width / exponent <= 10 (never counted as proved)
    options = {'split_heavy': True, 'bounded': 10, 'bounded_try_ms': 1500, 'bounded_ms': 30000,
               'symbolic_tier': 'thorough'}      # minutes per case: thorough tier only (tools/ctx2_native_efloat.py cross-checks natively)

    def pre(self, es, nbits, enable_inf, nan_kind, eoffset):
        return {'valid': ef2_valid(es, nbits, enable_inf, nan_kind.name)}

    def post(self, es, nbits, enable_inf, nan_kind, eoffset, result):
        nk = nan_kind.name
        p = nbits - es
        m = p - 1
        emin = ef2_emin(es, eoffset)
        e = ef2_max_e(es, m, enable_inf, nk)
        mb = ef2_max_mb(es, m, enable_inf, nk)
        pm = result.pos_maxval
        nm = result.neg_maxval
        return {
            'pmax': result.pmax == p,
            'emin': result.emin == emin,
            'enable': result.enable_nan and result.enable_inf,
            'pos_sign': not pm._s,
            'neg': nm._s and nm._exp == pm._exp and nm._c == pm._c,
            # the largest value is the value of the largest finite code of the nan kind
            'maxval': mag_eq_ec(pm._exp, pm._c, code_exp(e, emin - p + 1), code_c(e, mb, m)),
            'maxval_member': pm._c == 0 or (fits_p(pm._c, p) and grid_ok(pm._exp, pm._c, emin - p)),
            'has_nonzero': implies(pm._c != 0, nbits > 2 or (nbits == 2 and not enable_inf and (nk == 'NEG_ZERO' or nk == 'NONE'))),
        }

    def raises(self, es, nbits, enable_inf, nan_kind, eoffset):
        return {}


class EFloatFormat___init__(Contract):
    target = 'fpy2.number.context.efloat:EFloatFormat.__init__'
    params = {'self': 'EFloatFormat', 'es': 'int', 'nbits': 'int', 'enable_inf': 'bool', 'nan_kind': 'EFloatNanKind',
              'eoffset': 'int'}
    returns = 'None'
    properties = ['C01']
    split = ['nan_kind']
    options = {'noax_first_ms': 8000, 'light_theory': True,
               'opaque': {'fits_p': ['all', 'bool'], 'grid_ok': ['all', 'bool'], 'mag_eq_ec': ['all', 'bool']}}

    def post(self, es, nbits, enable_inf, nan_kind, eoffset, result):
        nk = nan_kind.name
        p = nbits - es
        m = p - 1
        emin = ef2_emin(es, eoffset)
        e = ef2_max_e(es, m, enable_inf, nk)
        mb = ef2_max_mb(es, m, enable_inf, nk)
        pm = self._mpb_fmt.pos_maxval
        return {
            'fields': self.es == es and self.nbits == nbits and self.enable_inf == enable_inf
                      and self.nan_kind.name == nk and self.eoffset == eoffset,
            'valid': ef2_valid(es, nbits, enable_inf, nk),
            'pmax': self._mpb_fmt.pmax == p,
            'emin': self._mpb_fmt.emin == emin,
            'mpb_enable': self._mpb_fmt.enable_nan and self._mpb_fmt.enable_inf,
            'has_nonzero': self._has_nonzero == (nbits > 2 or (nbits == 2 and not enable_inf and (nk == 'NEG_ZERO' or nk == 'NONE'))),
            'maxval': mag_eq_ec(pm._exp, pm._c, code_exp(e, emin - p + 1), code_c(e, mb, m)),
            'maxval_ok': ef2_fmt_maxval_ok(self),
        }

    def raises(self, es, nbits, enable_inf, nan_kind, eoffset):
        return {'ValueError': not ef2_valid(es, nbits, enable_inf, nan_kind.name)}


class EFloatContext___init__(Contract):
    target = 'fpy2.number.context.efloat:EFloatContext.__init__'
    params = {'self': 'EFloatContext', 'es': 'int', 'nbits': 'int', 'enable_inf': 'bool', 'nan_kind': 'EFloatNanKind',
              'eoffset': 'int', 'rm': 'RoundingMode', 'overflow': 'OverflowMode', 'num_randbits': 'int | None',
              'rng': 'RNG | None', 'nan_value': 'Float | None', 'inf_value': 'Float | None'}
    returns = 'None'
    properties = ['C01']
    binds = {'self.nan_value': 'nan_value', 'self.inf_value': 'inf_value', 'self.rng': 'rng'}
    split = ['nan_kind', 'nan_value', 'inf_value']
    # with substitutes: minutes per case -> thorough tier; EFloatContext___init___plain is the quick-tier variant
    options = {'noax_first_ms': 8000, 'light_theory': True, 'symbolic_tier': 'thorough',
               'opaque': {'fits_p': ['all', 'bool'], 'mag_lt_ec': ['all', 'bool']}}

    def post(self, es, nbits, enable_inf, nan_kind, eoffset, rm, overflow, num_randbits, rng, nan_value, inf_value, result):
        return {
            'fields': self.es == es and self.nbits == nbits and self.enable_inf == enable_inf
                      and self.nan_kind.name == nan_kind.name and self.eoffset == eoffset,
            'rm': self.rm.name == rm.name,
            'overflow': self.overflow.name == overflow.name,
            'num_randbits': (self.num_randbits is None) if num_randbits is None
                            else (self.num_randbits is not None and self.num_randbits == num_randbits),
            'inv': ef2_ctx_inv(self),
            'mpb_cfg': ef2_ctx_cfg(self),
            # K5: the substitutes are members of the format
            'nan_value_member': ef2_member(self, nan_value) if (nan_value is not None and nan_kind.name == 'NONE') else True,
            'inf_value_member': (ef2_member_signed(self, inf_value, False) and ef2_member_signed(self, inf_value, True))
                                if (inf_value is not None and not enable_inf) else True,
        }

    def raises(self, es, nbits, enable_inf, nan_kind, eoffset, rm, overflow, num_randbits, rng, nan_value, inf_value):
        nk = nan_kind.name
        return {'ValueError': overflow.name == 'WRAP' or not ef2_valid(es, nbits, enable_inf, nk)
                              or ef2_ctor_subst_bad(es, nbits, enable_inf, nk, eoffset, nan_value, inf_value)}


class EFloatContext___init___plain(Contract):
    target = 'fpy2.number.context.efloat:EFloatContext.__init__'
    params = {'self': 'EFloatContext', 'es': 'int', 'nbits': 'int', 'enable_inf': 'bool', 'nan_kind': 'EFloatNanKind',
              'eoffset': 'int', 'rm': 'RoundingMode', 'overflow': 'OverflowMode', 'num_randbits': 'int | None',
              'rng': 'RNG | None', 'nan_value': 'None', 'inf_value': 'None'}
    returns = 'None'
    properties = ['C01']
    binds = {'self.nan_value': 'nan_value', 'self.inf_value': 'inf_value', 'self.rng': 'rng'}
    split = ['nan_kind']
    inline = True      # the variant without substitutes (quick tier); EFloatContext___init__ is the full contract
    options = {'noax_first_ms': 8000, 'light_theory': True,
               'opaque': {'fits_p': ['all', 'bool'], 'mag_lt_ec': ['all', 'bool']}}

    def post(self, es, nbits, enable_inf, nan_kind, eoffset, rm, overflow, num_randbits, rng, nan_value, inf_value, result):
        return {
            'fields': self.es == es and self.nbits == nbits and self.enable_inf == enable_inf
                      and self.nan_kind.name == nan_kind.name and self.eoffset == eoffset,
            'rm': self.rm.name == rm.name,
            'overflow': self.overflow.name == overflow.name,
            'num_randbits': (self.num_randbits is None) if num_randbits is None
                            else (self.num_randbits is not None and self.num_randbits == num_randbits),
            'inv': ef2_ctx_inv(self),
            'mpb_cfg': ef2_ctx_cfg(self),
            # K5: the substitutes are members of the format
            'nan_value_member': ef2_member(self, nan_value) if (nan_value is not None and nan_kind.name == 'NONE') else True,
            'inf_value_member': (ef2_member_signed(self, inf_value, False) and ef2_member_signed(self, inf_value, True))
                                if (inf_value is not None and not enable_inf) else True,
        }

    def raises(self, es, nbits, enable_inf, nan_kind, eoffset, rm, overflow, num_randbits, rng, nan_value, inf_value):
        nk = nan_kind.name
        return {'ValueError': overflow.name == 'WRAP' or not ef2_valid(es, nbits, enable_inf, nk)
                              or ef2_ctor_subst_bad(es, nbits, enable_inf, nk, eoffset, nan_value, inf_value)}
