"""
C02 extension (3): exact-rational paths of the exact engine (fpy2/number/engine/real.py).

  RealEngine_div   IEEE 754 division tables (6.1, 6.2, 6.3, 7.2 (e), 7.3); the exact rational quotient is left open
"""
from speclib import *
from spec.real import *
from spec.floats import *
from spec.c02 import *
from spec.c05 import *
from spec.c02x import *


class RealEngine_div(Contract):
    target = 'fpy2.number.engine.real:RealEngine.div'
    params = {'self': 'RealEngine', 'x': 'Float | Fraction', 'y': 'Float | Fraction', 'ctx': 'Context'}
    returns = 'Float | Fraction'
    properties = ['C02']

    def post(self, x, y, ctx, result):
        r = result
        nan = arg_nan(x) or arg_nan(y)
        xi = arg_inf(x)
        yi = arg_inf(y)
        xz = arg_zero(x)
        yz = arg_zero(y)
        s = arg_neg(x) != arg_neg(y)
        gen = not nan and not xi and not yi and not xz and not yz
        out = {
            # 6.2 NaN propagation; 7.2 (e): 0/0 and inf/inf are invalid
            'nan': implies(nan, res_nan(r)),
            'inf_inf': implies(not nan and xi and yi, res_nan(r)),
            'zero_zero': implies(not nan and xz and yz, res_nan(r)),
            # 6.1 / 6.3: inf / finite = inf, finite / inf = 0, sign = XOR
            'inf_x': implies(not nan and xi and not yi, res_inf(r, s)),
            'inf_y': implies(not nan and yi and not xi, res_zero(r, s)),
            # 7.3 divideByZero: nonzero finite / 0 is an exact infinity with the XOR sign
            'div_by_zero': implies(not nan and not xi and not xz and yz, res_inf(r, s) and not r._real._flags.inexact
                                   if cls_name(r) == 'Float' else False),
            # 6.3: 0 / nonzero finite = 0 with the XOR sign
            'zero_x': implies(not nan and xz and not yz and not yi, res_zero(r, s)),
        }
        # general case (finite nonzero operands): the result is not NaN / infinite; that it IS the exact rational
        # quotient (and a Float exactly when dyadic) is NOT proved here: the Fraction model does not tie the lowest-terms
        # denominators of two equal rational terms, and the value clause needs nonlinear rational arithmetic (open)
        out.update({'finite': implies(gen, not res_nan(r) and ((not r._isinf) if cls_name(r) == 'Float' else True))})
        return out

    def raises(self, x, y, ctx):
        return {}
