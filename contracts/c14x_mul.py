"""
C14 extension (2): `_maxval_precision`, `AbstractFormat.effective_prec`, `_prec_constrains` and the finite part of
`AbstractFormat.__mul__` (quantum = sum of the quanta, precision from the effective precisions, bounds = extreme
products of the bounds).
"""
from speclib import *
from spec.real import *
from spec.floats import *
from spec.c14 import *
from spec.c14x import *


class C14x__maxval_precision(Contract):
    """number of bits of c' where bound = c' * 2^exp; ValueError exactly when bound is not a multiple of 2^exp"""
    target = 'fpy2.analysis.format_infer.format:_maxval_precision'
    params = {'bound': 'RealFloat', 'exp': 'int'}
    returns = 'int'
    properties = ['C14']
    no_use = ['RealFloat_normalize']     # the C14 contract RealFloat_normalize_n (exact significand) instead

    def post(self, bound, exp, result):
        sh = bound._exp - exp
        return {
            'bits': (result == bl(bound._c * pow2(sh))) if sh >= 0 else (result == bl(fdiv(bound._c, pow2(-sh)))),
            'nonneg': result >= 0,
            'zero': (result == 0) == (bound._c == 0),
        }

    def raises(self, bound, exp):
        sh = bound._exp - exp
        return {'ValueError': (fmod(bound._c, pow2(-sh)) != 0) if sh < 0 else False}


class C14x_bl_mul(Lemma):
    """bit length of a product: bl(x * y) <= bl(x) + bl(y)"""
    params = {'x': 'int', 'y': 'int'}
    properties = ['C14']
    options = {'chain': True}

    def pre(x, y):
        return {'x': x >= 0, 'y': y >= 0}

    def post(x, y):
        return {'lt': x * y < pow2(bl(x)) * pow2(bl(y)),
                'split': pow2(bl(x) + bl(y)) == pow2(bl(x)) * pow2(bl(y)),
                'le': bl(x * y) <= bl(x) + bl(y),
                'one': implies(bl(x) <= 1 and x != 0, x * y == y)}


class C14x_effective_prec(Contract):
    """effective precision = min(prec, bits needed to span the bounds at the quantum) where these are finite.
    The RealFloat comparisons (`bound`, `bound < cutoff`) are taken from the grid contracts C14h_* with the quantum
    as the grid (precondition `grid`: a proof device, any grid below the exponents is legal)."""
    target = 'fpy2.analysis.format_infer.format:AbstractFormat.effective_prec'
    params = {'self': 'AbstractFormat'}
    overrides = {'self.prec': 'int | PosInf', 'self.exp': 'int | NegInf',
                 'self.pos_bound': 'RealFloat | PosInf', 'self.neg_bound': 'RealFloat | NegInf'}
    split = ['self.prec', 'self.exp', 'self.pos_bound', 'self.neg_bound']
    returns = 'int | PosInf'
    properties = ['C14']
    no_use = ['RealFloat_normalize', 'RealFloat___lt__', 'RealFloat___gt__', 'RealFloat___abs__']

    def pre(self):
        g = GRID()
        return {'wf': wf(self), 'rep': bounds_rep(self), 'grid': grid_ok_fmt(self, g) and grid_is_exp(self, g)}

    def post(self, result):
        return {'eff': eff_spec_ok(self, result)}

    def raises(self):
        return {'AssertionError': not no_assert(self)}


class C14x__prec_constrains(Contract):
    """the float / fixed discriminator: prec thins the values iff it is smaller than the bits needed to span the
    bounds at the quantum; True (conservative) when any of the parameters is unbounded"""
    target = 'fpy2.analysis.format_infer.format:AbstractFormat._prec_constrains'
    params = {'self': 'AbstractFormat'}
    overrides = {'self.prec': 'int | PosInf', 'self.exp': 'int | NegInf',
                 'self.pos_bound': 'RealFloat | PosInf', 'self.neg_bound': 'RealFloat | NegInf'}
    split = ['self.prec', 'self.exp', 'self.pos_bound', 'self.neg_bound']
    returns = 'bool'
    properties = ['C14']
    no_use = ['RealFloat_normalize']

    def pre(self):
        return {'wf': wf(self), 'rep': bounds_rep(self)}

    def post(self, result):
        if is_fl(self.prec) or not all_finite(self):
            return {'unbounded': result == True}
        return {'constrains': result == (self.prec < span_bits(self))}

    def raises(self):
        return {}


class C14x_effective_prec_sound(Lemma):
    """the effective precision bounds the significand of every non-zero member given by a witness (e >= exp):
    c <= c * 2^(e - exp) = |v| / 2^exp <= bound / 2^exp.  Runs the real `effective_prec`."""
    params = {'A': 'AbstractFormat', 'v': 'Float'}
    overrides = {'A.prec': 'int | PosInf', 'A.exp': 'int | NegInf',
                 'A.pos_bound': 'RealFloat | PosInf', 'A.neg_bound': 'RealFloat | NegInf'}
    split = ['A.prec', 'A.exp', 'A.pos_bound', 'A.neg_bound']
    properties = ['C14']
    no_use = ['RealFloat_normalize', 'RealFloat___lt__', 'RealFloat___gt__', 'RealFloat___abs__']
    options = {'chain': True}

    def pre(A, v):
        g = GRID()
        out = {'wf': wf(A), 'rep': bounds_rep(A),
               'grid': grid_ok_fmt(A, g) and grid_is_exp(A, g) and g <= v._real._exp}
        out.update(mem_nz_clauses(v, A, g, 'mem'))
        return out

    def post(A, v):
        g = GRID()
        if not no_assert(A):
            # unbounded precision and quantum with two finite bounds: effective_prec() raises its documented
            # AssertionError (contract C14x_effective_prec#raises); nothing to state
            return {'asserts': True}
        p = A.effective_prec()
        c = v._real._c
        out = {'spec': eff_spec_ok(A, p)}
        if not is_fl(p):
            if all_finite(A):
                z_facts(v._real, g)
                z_facts(A.pos_bound, g)
                z_facts(A.neg_bound, g)
                out.update({'signs': case_split(v._real._s, A.pos_bound._s, A.neg_bound._s,
                                                A.pos_bound._c == 0, A.neg_bound._c == 0),
                            'absv': absZ(v._real._s, v._real._exp, c, g) <= imax(Zr(A.pos_bound, g), -Zr(A.neg_bound, g)),
                            'mag': c <= c * pow2(v._real._exp - g),
                            'span': bl(c * pow2(v._real._exp - g)) <= span_bits(A)})
            out.update({'sound': bl(c) <= p})
        return out


class C14x_mul_prec_rule(Lemma):
    """the precision rule of `__mul__` (restated: p = max(pA, pB) if pA == 1 or pB == 1 else max(pA + pB, 1)) covers the
    product of two significands that fit the effective precisions (C14x_effective_prec_sound).  Spec level only:
    the rule is not read from the code here (see the report: the finite part of __mul__ is not linked)."""
    params = {'pA': 'int', 'pB': 'int', 'ca': 'int', 'cb': 'int'}
    properties = ['C14']
    options = {'chain': True}

    def pre(pA, pB, ca, cb):
        return {'ca': ca > 0, 'cb': cb > 0, 'fitA': bl(ca) <= pA, 'fitB': bl(cb) <= pB}

    def post(pA, pB, ca, cb):
        apply_lemma('C14x_bl_mul', x=ca, y=cb)
        apply_lemma('C14x_bl_mul', x=cb, y=ca)
        p = ite(pA == 1 or pB == 1, imax(pA, pB), imax(pA + pB, 1))
        return {'comm': ca * cb == cb * ca, 'covers': bl(ca * cb) <= p}
