"""
C02 E1: the exact engine (fpy2/number/engine/real.py).

For finite operands the returned Float / Fraction denotes exactly the operation on the operands' values
(stated by exponent alignment over integers, or over the rationals when a Fraction is involved); for NaN /
infinite / zero operands the result is the IEEE 754-2019 answer.  The special-value tables below are written
from the standard (6.1 infinity arithmetic, 6.2 NaN propagation, 6.3 sign bit, 7.2 invalid operation), not
from the code.  The sign of an exact cancellation x + (-x) is +0 in every rounding direction but
roundTowardNegative, where the property leaves it open; the exact engine has no rounding direction and
must return +0.
"""
from speclib import *
from spec.real import *
from spec.floats import *
from spec.c02 import *


_C05_CONTRACTS = ['RealFloat___neg__', 'RealFloat___pos__', 'RealFloat___abs__', 'RealFloat_from_int', 'RealFloat_from_float', 'RealFloat_zero', 'RealFloat_one', 'RealFloat_power_of_2', 'RealFloat_from_rational', 'RealFloat_as_rational', 'RealFloat_is_more_significant', 'RealFloat_is_integer', 'RealFloat_bit', 'RealFloat___int__', 'RealFloat_is_identical_to', 'RealFloat___add__', 'RealFloat___mul__', 'RealFloat___radd__', 'RealFloat___sub__', 'RealFloat___rsub__', 'RealFloat___rmul__', 'RealFloat___pow__', 'RealFloat_compare_mixed', 'RealFloat___eq__', 'RealFloat___lt__', 'RealFloat___le__', 'RealFloat___gt__', 'RealFloat___ge__', 'RealFloat___hash__', 'RealFloat_normalize', 'Float___neg__', 'Float___pos__', 'Float___abs__', 'Float_from_real', 'Float_from_int', 'Float_from_float', 'Float_from_rational', 'Float___int__', 'Float_as_rational', 'Float_is_zero', 'Float_is_positive', 'Float_is_negative', 'Float_is_integer', 'Float_is_finite', 'Float_is_nonzero', 'Float_is_nar', 'Float___add__', 'Float___mul__', 'Float___pow__', 'Float_compare', 'Float___eq__', 'Float___lt__', 'Float___le__', 'Float___gt__', 'Float___ge__', 'Float___hash__', 'Float_normalize_n', 'Float_normalize_p', 'Float_split', 'Float_same_value']


class RealEngine_neg(Contract):
    target = 'fpy2.number.engine.real:RealEngine.neg'
    # verified against the inlined bodies of the RealFloat/Float operators (as when written), not their C05 contracts
    no_use = ['RealFloat___neg__', 'RealFloat___pos__', 'RealFloat___abs__', 'RealFloat_from_int', 'RealFloat_from_float', 'RealFloat_zero', 'RealFloat_one', 'RealFloat_power_of_2', 'RealFloat_from_rational', 'RealFloat_as_rational', 'RealFloat_is_more_significant', 'RealFloat_is_integer', 'RealFloat_bit', 'RealFloat___int__', 'RealFloat_is_identical_to', 'RealFloat___add__', 'RealFloat___mul__', 'RealFloat___radd__', 'RealFloat___sub__', 'RealFloat___rsub__', 'RealFloat___rmul__', 'RealFloat___pow__', 'RealFloat_compare_mixed', 'RealFloat___eq__', 'RealFloat___lt__', 'RealFloat___le__', 'RealFloat___gt__', 'RealFloat___ge__', 'RealFloat___hash__', 'RealFloat_normalize', 'Float___neg__', 'Float___pos__', 'Float___abs__', 'Float_from_real', 'Float_from_int', 'Float_from_float', 'Float_from_rational', 'Float___int__', 'Float_as_rational', 'Float_is_zero', 'Float_is_positive', 'Float_is_negative', 'Float_is_integer', 'Float_is_finite', 'Float_is_nonzero', 'Float_is_nar', 'Float___add__', 'Float___mul__', 'Float___pow__', 'Float_compare', 'Float___eq__', 'Float___lt__', 'Float___le__', 'Float___gt__', 'Float___ge__', 'Float___hash__', 'Float_normalize_n', 'Float_normalize_p', 'Float_split', 'Float_same_value']
    params = {'self': 'RealEngine', 'x': 'Float | Fraction', 'ctx': 'Context'}
    returns = 'Float | Fraction'
    properties = ['C02']

    def post(self, x, ctx, result):
        r = result
        if cls_name(x) == 'Float':
            # 5.5.1: negate copies x with the sign reversed -- for every x, NaN and infinities included
            return {
                'float': cls_name(r) == 'Float',
                'nan': (r._isnan == x._isnan) if cls_name(r) == 'Float' else False,
                'inf': (r._isinf == x._isinf) if cls_name(r) == 'Float' else False,
                'sign': (r._real._s == (not x._real._s)) if cls_name(r) == 'Float' else False,
                'magnitude': (r._real._exp == x._real._exp and r._real._c == x._real._c) if cls_name(r) == 'Float' else False,
                'fresh': not same_obj(r, x),
            }
        return {'value': (r == -x) if cls_name(r) == 'Fraction' else False}

    def raises(self, x, ctx):
        return {}


class RealEngine_fabs(Contract):
    target = 'fpy2.number.engine.real:RealEngine.fabs'
    # verified against the inlined bodies of the RealFloat/Float operators (as when written), not their C05 contracts
    no_use = ['RealFloat___neg__', 'RealFloat___pos__', 'RealFloat___abs__', 'RealFloat_from_int', 'RealFloat_from_float', 'RealFloat_zero', 'RealFloat_one', 'RealFloat_power_of_2', 'RealFloat_from_rational', 'RealFloat_as_rational', 'RealFloat_is_more_significant', 'RealFloat_is_integer', 'RealFloat_bit', 'RealFloat___int__', 'RealFloat_is_identical_to', 'RealFloat___add__', 'RealFloat___mul__', 'RealFloat___radd__', 'RealFloat___sub__', 'RealFloat___rsub__', 'RealFloat___rmul__', 'RealFloat___pow__', 'RealFloat_compare_mixed', 'RealFloat___eq__', 'RealFloat___lt__', 'RealFloat___le__', 'RealFloat___gt__', 'RealFloat___ge__', 'RealFloat___hash__', 'RealFloat_normalize', 'Float___neg__', 'Float___pos__', 'Float___abs__', 'Float_from_real', 'Float_from_int', 'Float_from_float', 'Float_from_rational', 'Float___int__', 'Float_as_rational', 'Float_is_zero', 'Float_is_positive', 'Float_is_negative', 'Float_is_integer', 'Float_is_finite', 'Float_is_nonzero', 'Float_is_nar', 'Float___add__', 'Float___mul__', 'Float___pow__', 'Float_compare', 'Float___eq__', 'Float___lt__', 'Float___le__', 'Float___gt__', 'Float___ge__', 'Float___hash__', 'Float_normalize_n', 'Float_normalize_p', 'Float_split', 'Float_same_value']
    params = {'self': 'RealEngine', 'x': 'Float | Fraction', 'ctx': 'Context'}
    returns = 'Float | Fraction'
    properties = ['C02']

    def post(self, x, ctx, result):
        r = result
        if cls_name(x) == 'Float':
            # 5.5.1: abs copies x with the sign bit cleared
            return {
                'float': cls_name(r) == 'Float',
                'nan': (r._isnan == x._isnan) if cls_name(r) == 'Float' else False,
                'inf': (r._isinf == x._isinf) if cls_name(r) == 'Float' else False,
                'sign': (r._real._s == False) if cls_name(r) == 'Float' else False,
                'magnitude': (r._real._exp == x._real._exp and r._real._c == x._real._c) if cls_name(r) == 'Float' else False,
                'fresh': not same_obj(r, x),
            }
        return {'value': (r == ite(x < 0, -x, x)) if cls_name(r) == 'Fraction' else False}

    def raises(self, x, ctx):
        return {}


class RealEngine_copysign(Contract):
    target = 'fpy2.number.engine.real:RealEngine.copysign'
    # verified against the inlined bodies of the RealFloat/Float operators (as when written), not their C05 contracts
    no_use = ['RealFloat___neg__', 'RealFloat___pos__', 'RealFloat___abs__', 'RealFloat_from_int', 'RealFloat_from_float', 'RealFloat_zero', 'RealFloat_one', 'RealFloat_power_of_2', 'RealFloat_from_rational', 'RealFloat_as_rational', 'RealFloat_is_more_significant', 'RealFloat_is_integer', 'RealFloat_bit', 'RealFloat___int__', 'RealFloat_is_identical_to', 'RealFloat___add__', 'RealFloat___mul__', 'RealFloat___radd__', 'RealFloat___sub__', 'RealFloat___rsub__', 'RealFloat___rmul__', 'RealFloat___pow__', 'RealFloat_compare_mixed', 'RealFloat___eq__', 'RealFloat___lt__', 'RealFloat___le__', 'RealFloat___gt__', 'RealFloat___ge__', 'RealFloat___hash__', 'RealFloat_normalize', 'Float___neg__', 'Float___pos__', 'Float___abs__', 'Float_from_real', 'Float_from_int', 'Float_from_float', 'Float_from_rational', 'Float___int__', 'Float_as_rational', 'Float_is_zero', 'Float_is_positive', 'Float_is_negative', 'Float_is_integer', 'Float_is_finite', 'Float_is_nonzero', 'Float_is_nar', 'Float___add__', 'Float___mul__', 'Float___pow__', 'Float_compare', 'Float___eq__', 'Float___lt__', 'Float___le__', 'Float___gt__', 'Float___ge__', 'Float___hash__', 'Float_normalize_n', 'Float_normalize_p', 'Float_split', 'Float_same_value']
    params = {'self': 'RealEngine', 'x': 'Float | Fraction', 'y': 'Float | Fraction', 'ctx': 'Context'}
    returns = 'Float | Fraction'
    properties = ['C02']

    def post(self, x, y, ctx, result):
        r = result
        s = arg_neg(y)
        if cls_name(x) == 'Float':
            # 5.5.1: copySign(x, y) copies x with the sign of y (y may be a NaN: its sign bit is used)
            return {
                'float': cls_name(r) == 'Float',
                'nan': (r._isnan == x._isnan) if cls_name(r) == 'Float' else False,
                'inf': (r._isinf == x._isinf) if cls_name(r) == 'Float' else False,
                'sign': (r._real._s == s) if cls_name(r) == 'Float' else False,
                'magnitude': (r._real._exp == x._real._exp and r._real._c == x._real._c) if cls_name(r) == 'Float' else False,
                'fresh': not same_obj(r, x),
            }
        ax = ite(x < 0, -x, x)
        return {
            'zero': implies(x == 0, res_zero(r, s)),
            'value': (implies(x != 0, r == ite(s, -ax, ax))) if cls_name(r) == 'Fraction' else (x == 0),
        }

    def raises(self, x, y, ctx):
        return {}


class RealEngine_add(Contract):
    target = 'fpy2.number.engine.real:RealEngine.add'
    # verified against the inlined bodies of the RealFloat/Float operators (as when written), not their C05 contracts
    no_use = ['RealFloat___neg__', 'RealFloat___pos__', 'RealFloat___abs__', 'RealFloat_from_int', 'RealFloat_from_float', 'RealFloat_zero', 'RealFloat_one', 'RealFloat_power_of_2', 'RealFloat_from_rational', 'RealFloat_as_rational', 'RealFloat_is_more_significant', 'RealFloat_is_integer', 'RealFloat_bit', 'RealFloat___int__', 'RealFloat_is_identical_to', 'RealFloat___add__', 'RealFloat___mul__', 'RealFloat___radd__', 'RealFloat___sub__', 'RealFloat___rsub__', 'RealFloat___rmul__', 'RealFloat___pow__', 'RealFloat_compare_mixed', 'RealFloat___eq__', 'RealFloat___lt__', 'RealFloat___le__', 'RealFloat___gt__', 'RealFloat___ge__', 'RealFloat___hash__', 'RealFloat_normalize', 'Float___neg__', 'Float___pos__', 'Float___abs__', 'Float_from_real', 'Float_from_int', 'Float_from_float', 'Float_from_rational', 'Float___int__', 'Float_as_rational', 'Float_is_zero', 'Float_is_positive', 'Float_is_negative', 'Float_is_integer', 'Float_is_finite', 'Float_is_nonzero', 'Float_is_nar', 'Float___add__', 'Float___mul__', 'Float___pow__', 'Float_compare', 'Float___eq__', 'Float___lt__', 'Float___le__', 'Float___gt__', 'Float___ge__', 'Float___hash__', 'Float_normalize_n', 'Float_normalize_p', 'Float_split', 'Float_same_value']
    params = {'self': 'RealEngine', 'x': 'Float | Fraction', 'y': 'Float | Fraction', 'ctx': 'Context'}
    returns = 'Float | Fraction'
    properties = ['C02']

    def post(self, x, y, ctx, result):
        r = result
        nan = arg_nan(x) or arg_nan(y)
        xi = arg_inf(x)
        yi = arg_inf(y)
        sx = arg_neg(x)
        sy = arg_neg(y)
        fin = not nan and not xi and not yi
        out = {
            # 6.2 NaN propagation; 7.2 (d) magnitude subtraction of infinities is invalid
            'nan': implies(nan, res_nan(r)),
            'inf_minus_inf': implies(not nan and xi and yi and sx != sy, res_nan(r)),
            # 6.1 infinities
            'inf_inf': implies(not nan and xi and yi and sx == sy, res_inf(r, sx)),
            'inf_x': implies(not nan and xi and not yi, res_inf(r, sx)),
            'inf_y': implies(not nan and yi and not xi, res_inf(r, sy)),
            'finite': implies(fin, not res_nan(r) and ((not r._isinf) if cls_name(r) == 'Float' else True)),
        }
        if cls_name(x) == 'Float' and cls_name(y) == 'Float':
            # both dyadic: the result is a Float and denotes the exact sum
            out.update({
                'float': cls_name(r) == 'Float',
                'sum': (implies(fin, dy_add_eq(x._real, y._real, r._real))) if cls_name(r) == 'Float' else False,
                # 6.3: x + y of two zeros: -0 only when both are -0
                'zero_sign': (implies(fin and x._real._c == 0 and y._real._c == 0,
                                      r._real._s == (sx and sy))) if cls_name(r) == 'Float' else False,
                # 6.3: an exact cancellation of nonzero operands is +0 (all directions but roundTowardNegative)
                'cancel_sign': (implies(fin and x._real._c != 0 and r._real._c == 0,
                                        not r._real._s)) if cls_name(r) == 'Float' else False,
            })
        else:
            # a Fraction operand: exact rational sum
            out.update({
                'fraction': implies(fin, cls_name(r) == 'Fraction'),
                'sum': (implies(fin, r == arg_val(x) + arg_val(y))) if cls_name(r) == 'Fraction' else (not fin),
            })
        return out

    def raises(self, x, y, ctx):
        return {}


class RealEngine_mul(Contract):
    target = 'fpy2.number.engine.real:RealEngine.mul'
    # verified against the inlined bodies of the RealFloat/Float operators (as when written), not their C05 contracts
    no_use = ['RealFloat___neg__', 'RealFloat___pos__', 'RealFloat___abs__', 'RealFloat_from_int', 'RealFloat_from_float', 'RealFloat_zero', 'RealFloat_one', 'RealFloat_power_of_2', 'RealFloat_from_rational', 'RealFloat_as_rational', 'RealFloat_is_more_significant', 'RealFloat_is_integer', 'RealFloat_bit', 'RealFloat___int__', 'RealFloat_is_identical_to', 'RealFloat___add__', 'RealFloat___mul__', 'RealFloat___radd__', 'RealFloat___sub__', 'RealFloat___rsub__', 'RealFloat___rmul__', 'RealFloat___pow__', 'RealFloat_compare_mixed', 'RealFloat___eq__', 'RealFloat___lt__', 'RealFloat___le__', 'RealFloat___gt__', 'RealFloat___ge__', 'RealFloat___hash__', 'RealFloat_normalize', 'Float___neg__', 'Float___pos__', 'Float___abs__', 'Float_from_real', 'Float_from_int', 'Float_from_float', 'Float_from_rational', 'Float___int__', 'Float_as_rational', 'Float_is_zero', 'Float_is_positive', 'Float_is_negative', 'Float_is_integer', 'Float_is_finite', 'Float_is_nonzero', 'Float_is_nar', 'Float___add__', 'Float___mul__', 'Float___pow__', 'Float_compare', 'Float___eq__', 'Float___lt__', 'Float___le__', 'Float___gt__', 'Float___ge__', 'Float___hash__', 'Float_normalize_n', 'Float_normalize_p', 'Float_split', 'Float_same_value']
    params = {'self': 'RealEngine', 'x': 'Float | Fraction', 'y': 'Float | Fraction', 'ctx': 'Context'}
    returns = 'Float | Fraction'
    properties = ['C02']

    def post(self, x, y, ctx, result):
        r = result
        nan = arg_nan(x) or arg_nan(y)
        xi = arg_inf(x)
        yi = arg_inf(y)
        s = arg_neg(x) != arg_neg(y)
        fin = not nan and not xi and not yi
        out = {
            # 6.2 NaN propagation; 7.2 (b) 0 x inf is invalid
            'nan': implies(nan, res_nan(r)),
            'zero_inf': implies(not nan and ((xi and arg_zero(y)) or (yi and arg_zero(x))), res_nan(r)),
            # 6.1 / 6.3: infinity times nonzero is an infinity whose sign is the XOR of the signs
            'inf': implies(not nan and ((xi and not arg_zero(y)) or (yi and not arg_zero(x))), res_inf(r, s)),
            'finite': implies(fin, not res_nan(r) and ((not r._isinf) if cls_name(r) == 'Float' else True)),
        }
        if cls_name(x) == 'Float' and cls_name(y) == 'Float':
            out.update({
                'float': cls_name(r) == 'Float',
                'product': (implies(fin, dy_mul_eq(x._real, y._real, r._real))) if cls_name(r) == 'Float' else False,
                # 6.3: the sign of a product is the XOR of the operands' signs, zeros included
                'sign': (implies(fin, r._real._s == s)) if cls_name(r) == 'Float' else False,
            })
        else:
            out.update({
                'fraction': implies(fin, cls_name(r) == 'Fraction'),
                'product': (implies(fin, r == arg_val(x) * arg_val(y))) if cls_name(r) == 'Fraction' else (not fin),
            })
        return out

    def raises(self, x, y, ctx):
        return {}


class RealEngine_sub(Contract):
    target = 'fpy2.number.engine.real:RealEngine.sub'
    # verified against the inlined bodies of the RealFloat/Float operators (as when written), not their C05 contracts
    no_use = ['RealFloat___neg__', 'RealFloat___pos__', 'RealFloat___abs__', 'RealFloat_from_int', 'RealFloat_from_float', 'RealFloat_zero', 'RealFloat_one', 'RealFloat_power_of_2', 'RealFloat_from_rational', 'RealFloat_as_rational', 'RealFloat_is_more_significant', 'RealFloat_is_integer', 'RealFloat_bit', 'RealFloat___int__', 'RealFloat_is_identical_to', 'RealFloat___add__', 'RealFloat___mul__', 'RealFloat___radd__', 'RealFloat___sub__', 'RealFloat___rsub__', 'RealFloat___rmul__', 'RealFloat___pow__', 'RealFloat_compare_mixed', 'RealFloat___eq__', 'RealFloat___lt__', 'RealFloat___le__', 'RealFloat___gt__', 'RealFloat___ge__', 'RealFloat___hash__', 'RealFloat_normalize', 'Float___neg__', 'Float___pos__', 'Float___abs__', 'Float_from_real', 'Float_from_int', 'Float_from_float', 'Float_from_rational', 'Float___int__', 'Float_as_rational', 'Float_is_zero', 'Float_is_positive', 'Float_is_negative', 'Float_is_integer', 'Float_is_finite', 'Float_is_nonzero', 'Float_is_nar', 'Float___add__', 'Float___mul__', 'Float___pow__', 'Float_compare', 'Float___eq__', 'Float___lt__', 'Float___le__', 'Float___gt__', 'Float___ge__', 'Float___hash__', 'Float_normalize_n', 'Float_normalize_p', 'Float_split', 'Float_same_value']
    params = {'self': 'RealEngine', 'x': 'Float | Fraction', 'y': 'Float | Fraction', 'ctx': 'Context'}
    returns = 'Float | Fraction'
    properties = ['C02']

    def post(self, x, y, ctx, result):
        r = result
        nan = arg_nan(x) or arg_nan(y)
        xi = arg_inf(x)
        yi = arg_inf(y)
        sx = arg_neg(x)
        sy = not arg_neg(y)          # x - y = x + (-y)  (5.4.1)
        fin = not nan and not xi and not yi
        out = {
            'nan': implies(nan, res_nan(r)),
            # 7.2 (d): inf - inf of like signs is invalid
            'inf_minus_inf': implies(not nan and xi and yi and sx != sy, res_nan(r)),
            'inf_inf': implies(not nan and xi and yi and sx == sy, res_inf(r, sx)),
            'inf_x': implies(not nan and xi and not yi, res_inf(r, sx)),
            'inf_y': implies(not nan and yi and not xi, res_inf(r, sy)),
            'finite': implies(fin, not res_nan(r) and ((not r._isinf) if cls_name(r) == 'Float' else True)),
        }
        if cls_name(x) == 'Float' and cls_name(y) == 'Float':
            out.update({
                'float': cls_name(r) == 'Float',
                'difference': (implies(fin, dy_sub_eq(x._real, y._real, r._real))) if cls_name(r) == 'Float' else False,
                # 6.3: (+0) - (+0) = +0, (-0) - (+0) = -0, (+0) - (-0) = +0, (-0) - (-0) = +0
                'zero_sign': (implies(fin and x._real._c == 0 and y._real._c == 0,
                                      r._real._s == (sx and sy))) if cls_name(r) == 'Float' else False,
                'cancel_sign': (implies(fin and x._real._c != 0 and r._real._c == 0,
                                        not r._real._s)) if cls_name(r) == 'Float' else False,
            })
        else:
            out.update({
                'fraction': implies(fin, cls_name(r) == 'Fraction'),
                'difference': (implies(fin, r == arg_val(x) - arg_val(y))) if cls_name(r) == 'Fraction' else (not fin),
            })
        return out

    def raises(self, x, y, ctx):
        return {}
