"""C01 context layer: MPFixedContext (fixed-point, least digit position nmin, no largest value)."""
from speclib import *
from spec.real import *
from spec.floats import *
from spec.ctx import *
from fpy2.number.round import RoundingMode


class MPFixedContext__round_at(Contract):
    target = 'fpy2.number.context.mp_fixed:MPFixedContext._round_at'
    params = {'self': 'MPFixedContext', 'x': 'RealFloat | Float', 'n': 'int | None', 'exact': 'bool'}
    returns = 'Float'
    properties = ['C01']
    binds = {'result._ctx': 'self'}

    def pre(self, x, n, exact):
        return {'deterministic': self.num_randbits is not None and self.num_randbits == 0}

    def post(self, x, n, exact, result):
        return mpx_post(self, x, n, exact, result)

    def raises(self, x, n, exact):
        return mpx_raises(self, x, n, exact)


class MPFixedContext_round(Contract):
    target = 'fpy2.number.context.mp_fixed:MPFixedContext.round'
    params = {'self': 'MPFixedContext', 'x': 'RealFloat | Float', 'exact': 'bool'}
    returns = 'Float'
    properties = ['C01']
    binds = {'result._ctx': 'self'}

    def pre(self, x, exact):
        return {'deterministic': self.num_randbits is not None and self.num_randbits == 0}

    def post(self, x, exact, result):
        return mpx_post(self, x, None, exact, result)

    def raises(self, x, exact):
        return mpx_raises(self, x, None, exact)


class MPFixedContext_round_at(Contract):
    target = 'fpy2.number.context.mp_fixed:MPFixedContext.round_at'
    params = {'self': 'MPFixedContext', 'x': 'RealFloat | Float', 'n': 'int', 'exact': 'bool'}
    returns = 'Float'
    properties = ['C01']
    binds = {'result._ctx': 'self'}

    def pre(self, x, n, exact):
        return {'deterministic': self.num_randbits is not None and self.num_randbits == 0}

    def post(self, x, n, exact, result):
        return mpx_post(self, x, n, exact, result)

    def raises(self, x, n, exact):
        return mpx_raises(self, x, n, exact)


class MPFixedContext_round_integer(Contract):
    target = 'fpy2.number.context.context:Context.round_integer'
    params = {'self': 'MPFixedContext', 'x': 'RealFloat | Float'}
    returns = 'Float'
    properties = ['C01']
    inline = True            # one contract per receiver class; never used modularly
    binds = {'result._ctx': 'self'}

    def pre(self, x):
        return {'deterministic': self.num_randbits is not None and self.num_randbits == 0}

    def post(self, x, result):
        return mpx_post(self, x, -1, False, result)

    def raises(self, x):
        return mpx_raises(self, x, -1, False)
