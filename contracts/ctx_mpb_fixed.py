"""C01 context layer: MPBFixedContext (fixed-point with a largest value and an overflow mode)."""
from speclib import *
from spec.real import *
from spec.floats import *
from spec.ctx import *
from fpy2.number.round import RoundingMode


class MPBFixedContext__is_overflowing(Contract):
    target = 'fpy2.number.context.mpb_fixed:MPBFixedContext._is_overflowing'
    params = {'self': 'MPBFixedContext', 'x': 'RealFloat'}
    returns = 'bool'
    properties = ['C01']

    def post(self, x, result):
        # |x| exceeds the largest magnitude of x's sign
        return {
            'neg': implies(x._s, result == mag_lt_ec(self.neg_maxval._exp, self.neg_maxval._c, x._exp, x._c)),
            'pos': implies(not x._s, result == mag_lt_ec(self.pos_maxval._exp, self.pos_maxval._c, x._exp, x._c)),
        }

    def raises(self, x):
        return {}


class MPBFixedContext__overflow_to_infinity(Contract):
    target = 'fpy2.number.context.mpb_fixed:MPBFixedContext._overflow_to_infinity'
    params = {'self': 'MPBFixedContext', 's': 'bool'}
    returns = 'bool'
    properties = ['C01']

    def post(self, s, result):
        return {'table': result == ovf_to_inf(self.rm, s, True, True)}

    def raises(self, s):
        return {}


class MPBFixedContext__round_at(Contract):
    target = 'fpy2.number.context.mpb_fixed:MPBFixedContext._round_at'
    params = {'self': 'MPBFixedContext', 'x': 'RealFloat | Float', 'n': 'int | None', 'exact': 'bool'}
    returns = 'Float'
    properties = ['C01']
    binds = {'result._ctx': 'self'}
    split = ['x', 'exact', 'n']
    # 4 cases x ~450 s: thorough tier (the quick command must stay well under the harness limit of 900 s)
    options = {'light_theory': True, 'noax_first_ms': 8000, 'symbolic_tier': 'thorough'}

    def pre(self, x, n, exact):
        return {'deterministic': self.num_randbits is not None and self.num_randbits == 0,
                # derived fields as the constructor of the format computes them (needed by the WRAP arm only)
                'fmt_ordinals': mpbx_ordinals(self)}

    def post(self, x, n, exact, result):
        return mpbx_post(self, x, n, exact, result)

    def raises(self, x, n, exact):
        return mpbx_raises(self, x, n, exact)


class MPBFixedContext_round(Contract):
    target = 'fpy2.number.context.mpb_fixed:MPBFixedContext.round'
    params = {'self': 'MPBFixedContext', 'x': 'RealFloat | Float', 'exact': 'bool'}
    returns = 'Float'
    properties = ['C01']
    binds = {'result._ctx': 'self'}
    options = {'noax_first_ms': 8000}

    def pre(self, x, exact):
        return {'deterministic': self.num_randbits is not None and self.num_randbits == 0,
                'fmt_ordinals': mpbx_ordinals(self)}

    def post(self, x, exact, result):
        return mpbx_post(self, x, None, exact, result)

    def raises(self, x, exact):
        return mpbx_raises(self, x, None, exact)


class MPBFixedContext_round_at(Contract):
    target = 'fpy2.number.context.mpb_fixed:MPBFixedContext.round_at'
    params = {'self': 'MPBFixedContext', 'x': 'RealFloat | Float', 'n': 'int', 'exact': 'bool'}
    returns = 'Float'
    properties = ['C01']
    binds = {'result._ctx': 'self'}
    options = {'noax_first_ms': 8000}

    def pre(self, x, n, exact):
        return {'deterministic': self.num_randbits is not None and self.num_randbits == 0,
                'fmt_ordinals': mpbx_ordinals(self)}

    def post(self, x, n, exact, result):
        return mpbx_post(self, x, n, exact, result)

    def raises(self, x, n, exact):
        return mpbx_raises(self, x, n, exact)
