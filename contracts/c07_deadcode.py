"""
C07 / O4: dead-code elimination marks an assignment for deletion only when nothing reads the definition
it introduces and its right-hand side is pure.

`_DeadCodeEliminate.apply` computes, in every round of its `while True` loop, the set `unused_assign` of
Assign statements handed to `_Eliminator` (which deletes exactly the marked statements: _visit_assign).
Mechanism contract = the precondition of the eliminator:

    pre@_Eliminator._apply[removable]   every definition d introduced by a marked single-name assignment has
                                        no uses and a pure right-hand side          (spec.c07.removable)

established through the loop invariants inv0 (definitions marked directly) and inv1 (definitions marked as
the ARGUMENTS OF AN UNUSED PHI).

ASSUMED (trusted): DefineUse.analyze (ghost field func.def_use), the shape of the analysis
(spec.c07.du_wellformed), Purity.analyze_expr(e) == pure_expr(e) (uninterpreted), _Eliminator._apply returns
some FuncDef and a flag.
"""
from speclib import *
from spec.c07 import *


class Purity_analyze_expr(Contract):
    target = 'fpy2.analysis.purity:Purity.analyze_expr'
    params = {'expr': 'Key[Expr]', 'def_use': 'DUModel'}
    returns = 'bool'
    properties = ['C07']
    trusted = True
    note = 'ASSUMED: Purity.analyze_expr(e, du) is the (uninterpreted) predicate pure_expr(e) and does not raise'

    def post(self, expr, def_use, result):
        return {'pure': result == pure_expr(expr)}

    def raises(self, expr, def_use):
        return {}


class Eliminator__apply(Contract):
    target = 'fpy2.transform.dead_code:_Eliminator._apply'
    params = {'self': '_Eliminator'}
    overrides = {'self.func': 'FuncDefM', 'self.def_use': 'DUModel', 'self.unused_assign': 'set[Key[DefSite]]'}
    returns = 'tuple[FuncDefM, bool]'
    properties = ['C07']
    trusted = True
    note = ('ASSUMED result (some FuncDef, some flag; no exception).  Its PRECONDITION is the O4 obligation at the call in '
            '_DeadCodeEliminate.apply: every marked assignment is removable')

    def pre(self):
        return {'removable': marks_removable(self.func, self.unused_assign)}

    def raises(self):
        return {}


class DeadCodeEliminate_apply(Contract):
    target = 'fpy2.transform.dead_code:_DeadCodeEliminate.apply'
    params = {'self': '_DeadCodeEliminate'}
    overrides = {'self.func': 'FuncDefM', 'self.def_use': 'DUModel'}
    aliases = {'self.def_use': 'self.func.def_use'}
    returns = 'tuple[FuncDefM, bool]'
    modifies = ['self.func', 'self.def_use']
    properties = ['C07']
    native_candidates = 'spec.c07_ref:deadcode_candidates'
    native_ghosts = 'spec.c07_ref:GHOSTS'
    native_universe = 'spec.c07_ref:key_universe'
    native_demo = 'spec.c07_ref:demo'
    options = {
        'feas_ms': 40, 'split_heavy': True,     # quantified facts: a satisfiable feasibility check only ever times out (unknown = feasible)
        'key_attrs': 'spec.c07:KEY_ATTRS',
        'local_types': {'unused_assign': 'set[Key[DefSite]]', 'unused_fv': 'set[NamedId]', 'unused_phi': 'set[Key[Definition]]'},
        'loop_modifies': {0: ['unused_assign', 'unused_fv', 'unused_phi'], 1: ['unused_assign']},
        'while_types': {0: {'self.func': 'FuncDefM'}},
        'while_binds': {0: {'self.def_use': 'self.func.def_use'}},
    }
    note = ('verified: the `while True` loop by the invariant winv0 (self.def_use is the analysis of self.func), the loop over '
            'def_use.uses.items() by inv0 and the loop over the unused phis by inv1')

    def winv0(self, eliminated_any):
        return {'du': same_obj(self.def_use, self.func.def_use)}

    def inv0(self, unused_assign, unused_phi, done):
        return {
            'du': same_obj(self.def_use, self.func.def_use),
            # a definition whose assignment is marked directly has no uses and a pure right-hand side
            'marked_removable': marks_removable(self.func, unused_assign),
            # the phis collected are phis of the analysis without uses
            'phis_unused': phis_unused(self.func, unused_phi),
        }

    def inv1(self, unused_assign, unused_phi, done):
        return {
            'du': same_obj(self.def_use, self.func.def_use),
            # ... also when it is marked as the ARGUMENT OF AN UNUSED PHI
            'marked_removable': marks_removable(self.func, unused_assign),
        }

    def raises(self):
        return {}
