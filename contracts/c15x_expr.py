"""
C15 extension / D3 for expressions: every expression visitor of `SyntaxCheckInstance` visits every
sub-expression in the right environment, so that a normal return means

    every free use of e (spec/c15x.py `uses`) is marked defined-on-all-paths in ctx.env,

it returns None, raises only FPySyntaxError, changes only `self.free_var_args`, and leaves the `ctx` object it was
given unchanged (frame).  Children are opaque keys (`Key[Expr]`) visited through the contract of
`_visit_expr` (contracts/c15_visit.py `SC__visit_expr`, itself verified per expression class: the dispatch).
"""
from speclib import *
from spec.c15 import *
from spec.c15x import *


class SC__check_op_nameable(Contract):
    target = 'fpy2.analysis.syntax_check:SyntaxCheckInstance._check_op_nameable'
    params = {'e': 'Hexnum | Rational | Digits | NullaryOp | NamedUnaryOp | NamedBinaryOp | NamedTernaryOp | NamedNaryOp | ConstPi | Sqrt | Fma'}
    split = ['e']
    returns = 'None'
    properties = ['C15']
    may_raise = ['FPySyntaxError']
    note = ('rejects or returns None and touches nothing; verified for the classes that reach it '
            '(abstract bases as representatives, plus three concrete operators)')

    def post(self, e, result):
        return {'none': result is None}


class SC__visit_unaryop(Contract):
    target = 'fpy2.analysis.syntax_check:SyntaxCheckInstance._visit_unaryop'
    params = {'self': 'SyntaxCheckInstance', 'e': 'UnaryOp | NamedUnaryOp', 'ctx': '_Ctx'}
    overrides = {'e.args': 'tuple[Key[Expr]]'}
    split = ['e']
    returns = 'None'
    properties = ['C15']
    modifies = ['self.free_var_args']
    may_raise = ['FPySyntaxError']
    options = {'call_counts': {'SyntaxCheckInstance._visit_expr': 1}}

    def post(self, e, ctx, result, old):
        return dict(ctx_frame(ctx, old.ctx), none=result is None, uses_bound=uses_bound(self, e, ctx.env))


class SC__visit_binaryop(Contract):
    target = 'fpy2.analysis.syntax_check:SyntaxCheckInstance._visit_binaryop'
    params = {'self': 'SyntaxCheckInstance', 'e': 'BinaryOp | NamedBinaryOp', 'ctx': '_Ctx'}
    overrides = {'e.args': 'tuple[Key[Expr], Key[Expr]]'}
    split = ['e']
    returns = 'None'
    properties = ['C15']
    modifies = ['self.free_var_args']
    may_raise = ['FPySyntaxError']
    options = {'call_counts': {'SyntaxCheckInstance._visit_expr': 2}}

    def post(self, e, ctx, result, old):
        return dict(ctx_frame(ctx, old.ctx), none=result is None, uses_bound=uses_bound(self, e, ctx.env))


class SC__visit_ternaryop(Contract):
    target = 'fpy2.analysis.syntax_check:SyntaxCheckInstance._visit_ternaryop'
    params = {'self': 'SyntaxCheckInstance', 'e': 'TernaryOp | NamedTernaryOp', 'ctx': '_Ctx'}
    overrides = {'e.args': 'tuple[Key[Expr], Key[Expr], Key[Expr]]'}
    split = ['e']
    returns = 'None'
    properties = ['C15']
    modifies = ['self.free_var_args']
    may_raise = ['FPySyntaxError']
    options = {'call_counts': {'SyntaxCheckInstance._visit_expr': 3}}

    def post(self, e, ctx, result, old):
        return dict(ctx_frame(ctx, old.ctx), none=result is None, uses_bound=uses_bound(self, e, ctx.env))


class SC__visit_naryop(Contract):
    target = 'fpy2.analysis.syntax_check:SyntaxCheckInstance._visit_naryop'
    params = {'self': 'SyntaxCheckInstance', 'e': 'NaryOp | NamedNaryOp', 'ctx': '_Ctx'}
    overrides = {'e.args': 'KeySeq[Expr]'}
    split = ['e']
    returns = 'None'
    properties = ['C15']
    modifies = ['self.free_var_args']
    may_raise = ['FPySyntaxError']
    options = {'loop_modifies': {0: ['self.free_var_args']}}
    note = 'loop over e.args (symbolic length), invariant over the visited prefix; axioms = fold definition of uses_prefix'

    def axioms(self, e):
        return seq_fold_def(e, 'args', e.args, strict_of(self))

    def inv0(self, e, ctx, done, old):
        return dict(ctx_frame(ctx, old.ctx),
                    prefix=prefix_bound(self, e, 'args', done, ctx.env))

    def post(self, e, ctx, result, old):
        return dict(ctx_frame(ctx, old.ctx), none=result is None, uses_bound=uses_bound(self, e, ctx.env))


class SC__visit_compare(Contract):
    target = 'fpy2.analysis.syntax_check:SyntaxCheckInstance._visit_compare'
    params = {'self': 'SyntaxCheckInstance', 'e': 'Compare', 'ctx': '_Ctx'}
    overrides = {'e.args': 'KeySeq[Expr]'}
    returns = 'None'
    properties = ['C15']
    modifies = ['self.free_var_args']
    may_raise = ['FPySyntaxError']
    options = {'loop_modifies': {0: ['self.free_var_args']}}

    def axioms(self, e):
        return seq_fold_def(e, 'args', e.args, strict_of(self))

    def inv0(self, e, ctx, done, old):
        return dict(ctx_frame(ctx, old.ctx),
                    prefix=prefix_bound(self, e, 'args', done, ctx.env))

    def post(self, e, ctx, result, old):
        return dict(ctx_frame(ctx, old.ctx), none=result is None, uses_bound=uses_bound(self, e, ctx.env))


class SC__visit_tuple_expr(Contract):
    target = 'fpy2.analysis.syntax_check:SyntaxCheckInstance._visit_tuple_expr'
    params = {'self': 'SyntaxCheckInstance', 'e': 'TupleExpr', 'ctx': '_Ctx'}
    overrides = {'e.elts': 'KeySeq[Expr]'}
    returns = 'None'
    properties = ['C15']
    modifies = ['self.free_var_args']
    may_raise = ['FPySyntaxError']
    options = {'loop_modifies': {0: ['self.free_var_args']}}

    def axioms(self, e):
        return seq_fold_def(e, 'elts', e.elts, strict_of(self))

    def inv0(self, e, ctx, done, old):
        return dict(ctx_frame(ctx, old.ctx), prefix=prefix_bound(self, e, 'elts', done, ctx.env))

    def post(self, e, ctx, result, old):
        return dict(ctx_frame(ctx, old.ctx), none=result is None, uses_bound=uses_bound(self, e, ctx.env))


class SC__visit_list_expr(Contract):
    target = 'fpy2.analysis.syntax_check:SyntaxCheckInstance._visit_list_expr'
    params = {'self': 'SyntaxCheckInstance', 'e': 'ListExpr', 'ctx': '_Ctx'}
    overrides = {'e.elts': 'KeySeq[Expr]'}
    returns = 'None'
    properties = ['C15']
    modifies = ['self.free_var_args']
    may_raise = ['FPySyntaxError']
    options = {'loop_modifies': {0: ['self.free_var_args']}}

    def axioms(self, e):
        return seq_fold_def(e, 'elts', e.elts, strict_of(self))

    def inv0(self, e, ctx, done, old):
        return dict(ctx_frame(ctx, old.ctx), prefix=prefix_bound(self, e, 'elts', done, ctx.env))

    def post(self, e, ctx, result, old):
        return dict(ctx_frame(ctx, old.ctx), none=result is None, uses_bound=uses_bound(self, e, ctx.env))


class SC__visit_list_ref(Contract):
    target = 'fpy2.analysis.syntax_check:SyntaxCheckInstance._visit_list_ref'
    params = {'self': 'SyntaxCheckInstance', 'e': 'ListRef', 'ctx': '_Ctx'}
    overrides = {'e.value': 'Key[Expr]', 'e.index': 'Key[Expr]'}
    returns = 'None'
    properties = ['C15']
    modifies = ['self.free_var_args']
    may_raise = ['FPySyntaxError']
    options = {'call_counts': {'SyntaxCheckInstance._visit_expr': 2}}

    def post(self, e, ctx, result, old):
        return dict(ctx_frame(ctx, old.ctx), none=result is None, uses_bound=uses_bound(self, e, ctx.env))


class SC__visit_list_slice(Contract):
    target = 'fpy2.analysis.syntax_check:SyntaxCheckInstance._visit_list_slice'
    params = {'self': 'SyntaxCheckInstance', 'e': 'ListSlice', 'ctx': '_Ctx'}
    overrides = {'e.value': 'Key[Expr]', 'e.start': 'Key[Expr] | None', 'e.stop': 'Key[Expr] | None'}
    returns = 'None'
    properties = ['C15']
    modifies = ['self.free_var_args']
    may_raise = ['FPySyntaxError']

    def post(self, e, ctx, result, old):
        return dict(ctx_frame(ctx, old.ctx), none=result is None, uses_bound=uses_bound(self, e, ctx.env))


class SC__visit_if_expr(Contract):
    target = 'fpy2.analysis.syntax_check:SyntaxCheckInstance._visit_if_expr'
    params = {'self': 'SyntaxCheckInstance', 'e': 'IfExpr', 'ctx': '_Ctx'}
    overrides = {'e.cond': 'Key[Expr]', 'e.ift': 'Key[Expr]', 'e.iff': 'Key[Expr]'}
    returns = 'None'
    properties = ['C15']
    modifies = ['self.free_var_args']
    may_raise = ['FPySyntaxError']
    options = {'call_counts': {'SyntaxCheckInstance._visit_expr': 3}}

    def post(self, e, ctx, result, old):
        return dict(ctx_frame(ctx, old.ctx), none=result is None, uses_bound=uses_bound(self, e, ctx.env))


class SC__visit_attribute(Contract):
    target = 'fpy2.analysis.syntax_check:SyntaxCheckInstance._visit_attribute'
    params = {'self': 'SyntaxCheckInstance', 'e': 'Attribute', 'ctx': '_Ctx'}
    overrides = {'e.value': 'Key[Expr]'}
    returns = 'None'
    properties = ['C15']
    modifies = ['self.free_var_args']
    may_raise = ['FPySyntaxError']
    note = ('`e.value` is an opaque node of symbolic class (closed world of Expr classes): the function-position '
            'test `isinstance(e.value, Var | Attribute)` is decided symbolically')

    def post(self, e, ctx, result, old):
        return dict(ctx_frame(ctx, old.ctx), none=result is None, uses_bound=uses_bound(self, e, ctx.env),
                    # in function position (`a.b.c(..)`) the base is a variable or another attribute
                    fn_position=implies(ctx.within_call, key_isa(e.value, 'Var') or key_isa(e.value, 'Attribute')))


class SC__visit_call(Contract):
    target = 'fpy2.analysis.syntax_check:SyntaxCheckInstance._visit_call'
    params = {'self': 'SyntaxCheckInstance', 'e': 'Call', 'ctx': '_Ctx'}
    overrides = {'e.func.name': 'Key[NamedId]', 'e.func.value': 'Key[Expr]', 'e.args': 'KeySeq[Expr]',
                 'e.kwargs': 'PairSeq[Expr]'}
    returns = 'None'
    properties = ['C15']
    modifies = ['self.free_var_args']
    may_raise = ['FPySyntaxError']
    options = {'loop_modifies': {0: ['self.free_var_args'], 1: ['self.free_var_args']}}
    note = ('function position: a Var is a use unless unknown names are ignored, an Attribute is visited with '
            'within_call=True in a FRESH context (the caller\'s ctx keeps within_call); positional and keyword '
            'arguments (two loops, symbolic lengths; kwargs is a sequence of (name, expr) pairs)')

    def axioms(self, e):
        return dict(seq_fold_def(e, 'args', e.args, strict_of(self)), **seq_fold_def(e, 'kwargs', e.kwargs, strict_of(self)))

    def inv0(self, e, ctx, done, old):
        return dict(ctx_frame(ctx, old.ctx),
                    func=forall_keys('NamedId', lambda k: implies(call_func_uses(e, k, strict_of(self)), bound(ctx.env, k))),
                    prefix=prefix_bound(self, e, 'args', done, ctx.env))

    def inv1(self, e, ctx, done, old):
        return dict(ctx_frame(ctx, old.ctx),
                    func=forall_keys('NamedId', lambda k: implies(call_func_uses(e, k, strict_of(self)), bound(ctx.env, k))),
                    args=prefix_bound(self, e, 'args', seq_len(e.args), ctx.env),
                    prefix=prefix_bound(self, e, 'kwargs', done, ctx.env))

    def post(self, e, ctx, result, old):
        return dict(ctx_frame(ctx, old.ctx), none=result is None, uses_bound=uses_bound(self, e, ctx.env))


class SC__visit_list_comp(Contract):
    target = 'fpy2.analysis.syntax_check:SyntaxCheckInstance._visit_list_comp'
    params = {'self': 'SyntaxCheckInstance', 'e': 'ListComp', 'ctx': '_Ctx'}
    overrides = {'e.targets': 'KeySeq[TupleBinding]', 'e.iterables': 'KeySeq[Expr]', 'e.elt': 'Key[Expr]'}
    returns = 'None'
    properties = ['C15']
    modifies = ['self.free_var_args']
    may_raise = ['FPySyntaxError']
    loop_types = {0: {'env': '_Env'}}
    options = {'loop_modifies': {0: ['self.free_var_args']}}
    note = ('comprehension targets are bound only for the later iterables and the element: generator i is checked in '
            'ctx.env + targets[0..i), the element in ctx.env + all targets, and the env of the enclosing statement '
            '(the ctx object the caller keeps using) is unchanged.  pre same_length = the constructor\'s assert.  '
            'The loop rebinds the LOCAL name ctx to fresh contexts; `env` is first bound by the body (loop_types).')

    def pre(self, e):
        return {'same_length': seq_len(e.targets) == seq_len(e.iterables)}

    def axioms(self, e):
        return lc_fold_def(e, strict_of(self))

    def inv0(self, e, ctx, env, done, old):
        return {
            'within_call': ctx.within_call == old.ctx.within_call,
            'env': forall_keys('NamedId', lambda k: bound(ctx.env, k) == (bound(old.ctx.env, k) or lc_bound_prefix(e, done, k))),
            'uses': forall_keys('NamedId', lambda k: implies(lc_uses_prefix(e, done, k, strict_of(self)), bound(old.ctx.env, k))),
            'alias': True if env is None else same_env(env, ctx.env),
        }

    def post(self, e, ctx, result, old):
        return dict(ctx_frame(ctx, old.ctx), none=result is None, uses_bound=uses_bound(self, e, ctx.env))
