"""
C13 / A2 (use site): the class the analysis reports for the constants `nan()` / `inf()`.

`_visit_nullaryop` reports `_rounded(e, NAN)` (resp. INF): under a concrete non-REAL context that is
`representable_classes(ctx)`.  The interpreter evaluates the constant with `fpy2.ops.nan(ctx)` / `ops.inf(ctx)`.
Soundness of that use of `representable_classes` is the statement below.  It FAILS on the unchanged tree
(finding C13-1): `ops.nan` / `ops.inf` do not round under ctx, so under a context without NaN / infinities
(MPFixedContext with enable_nan=False, nan_value=None -- e.g. SINT32) the run-time value is a NaN although the
reported class set has no NAN.  The clauses are kept as they are.
"""
from speclib import *
from spec.c13 import *
from fpy2.analysis.value_class import representable_classes
from fpy2.ops import nan as ops_nan, inf as ops_inf


class VC_const_nan_inf_mpfixed(Lemma):
    params = {'ctx': 'MPFixedContext'}
    properties = ['C13']
    options = {'feas_ms': 400}

    def pre(ctx):
        return {'deterministic': ctx.num_randbits is not None and ctx.num_randbits == 0}

    def post(ctx):
        s = representable_classes(ctx)
        return {
            'nan_reported': class_of(ops_nan(ctx)) in s,
            'inf_reported': class_of(ops_inf(ctx)) in s,
        }
