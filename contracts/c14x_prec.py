"""
C14 extension (1): the PRECISION of a sum / difference of formats is sufficient for every exact result.

`AbstractFormat.__add__/__sub__` compute the precision from the larger of |pos_bound| and |neg_bound| of the
RESULT, renormalised at the result quantum 2^q, q = min(A.exp, B.exp).  The lemmas run the real operators
(`R = A + B`) and the real exact RealFloat arithmetic on two arbitrary finite members and prove
bl(c_sum) <= R.prec for the representation (c_sum, e_sum) that RealFloat.__add__ returns (e_sum >= q, so it is a
witness of membership).

Proof structure (option `chain`: a clause is a fact for the later clauses).  The signed grid integers
Z_g(x) stay FOLDED (option `opaque`: `Z` is an uninterpreted function here); the four facts about them that the
proof needs are proved once from the definition in `C14x_Z_facts` and applied (`apply_lemma`) to the
RealFloats that occur: with them every step is linear arithmetic over the integers Z_g(.) plus monotonicity of
bit_length.  No bounded fallback.
"""
from speclib import *
from spec.real import *
from spec.floats import *
from spec.c14 import *
from spec.c14x import *


class C14x_Z_facts(Lemma):
    """facts about the grid integer Z_g(x) = (-1)^s c 2^(e-g) of a RealFloat (s, e, c), g <= e"""
    params = {'s': 'bool', 'e': 'int', 'c': 'int', 'g': 'int'}
    properties = ['C14']

    def pre(s, e, c, g):
        return {'c': c >= 0, 'grid': g <= e}

    def post(s, e, c, g):
        z = Z(s, e, c, g)
        return {
            'ge': c <= absZ(s, e, c, g),
            'sign': ite(s, z <= 0, z >= 0),
            'zero': (z == 0) == (c == 0),
            'norm': c * pow2(e - g) == absZ(s, e, c, g),
            'flip': Z(not s, e, c, g) == -z,
        }


def _prec_pre(A, B, a, b):
    g = GRID()
    out = {'wfA': wf(A), 'wfB': wf(B), 'repA': bounds_rep(A), 'repB': bounds_rep(B),
           'grid': grid_ok_fmt(A, g) and grid_ok_fmt(B, g),
           # the grid is the result quantum (a legal grid: it lies below every exponent involved)
           'grid_is_quantum': True if (is_fl(A.exp) or is_fl(B.exp)) else g == imin(A.exp, B.exp)}
    out.update(fin_member_clauses(a, A, g, 'a'))
    out.update(fin_member_clauses(b, B, g, 'b'))
    return out



class C14x_add_prec(Lemma):
    """sum: bl(c) <= (A + B).prec for the exact sum c * 2^e of two finite members (all 16 x 16 field shapes)"""
    params = {'A': 'AbstractFormat', 'B': 'AbstractFormat', 'a': 'Float', 'b': 'Float'}
    overrides = {'A.prec': 'int | PosInf', 'A.exp': 'int | NegInf',
                 'A.pos_bound': 'RealFloat | PosInf', 'A.neg_bound': 'RealFloat | NegInf',
                 'B.prec': 'int | PosInf', 'B.exp': 'int | NegInf',
                 'B.pos_bound': 'RealFloat | PosInf', 'B.neg_bound': 'RealFloat | NegInf'}
    split = ['A.prec', 'A.exp', 'A.pos_bound', 'A.neg_bound']
    properties = ['C14']
    # the grid contracts of contracts/c14_format.py (C14h_*), not the C05 contracts of the same targets
    no_use = ['RealFloat___add__', 'RealFloat___neg__', 'RealFloat___abs__', 'RealFloat___gt__', 'RealFloat___lt__', 'RealFloat___ge__', 'RealFloat___le__', 'RealFloat_normalize']
    options = {'chain': True, 'opaque': {'Z': ['all', 'int']}, 'theory_light': True}

    def pre(A, B, a, b):
        return _prec_pre(A, B, a, b)

    def post(A, B, a, b):
        g = GRID()
        R = A + B
        s = a._real + b._real
        out = {}
        if all_finite(A) and all_finite(B):
            z_facts(s, g)
            z_facts(R.pos_bound, g)
            z_facts(R.neg_bound, g)
            zs = Zr(s, g)
            out.update({
                'prec_int': not is_fl(R.prec),
                'bounds_fin': not is_fl(R.pos_bound) and not is_fl(R.neg_bound),
                'hi': zs <= Zr(R.pos_bound, g),
                'lo': Zr(R.neg_bound, g) <= zs,
                'mag': s._c <= imax(Zr(R.pos_bound, g), -Zr(R.neg_bound, g)),
            })
        out.update({'prec': implies(s._c != 0, prec_fits(s._c, R))})
        return out


class C14x_sub_prec(Lemma):
    """difference: bl(c) <= (A - B).prec for the exact difference c * 2^e of two finite members"""
    params = {'A': 'AbstractFormat', 'B': 'AbstractFormat', 'a': 'Float', 'b': 'Float'}
    overrides = {'A.prec': 'int | PosInf', 'A.exp': 'int | NegInf',
                 'A.pos_bound': 'RealFloat | PosInf', 'A.neg_bound': 'RealFloat | NegInf',
                 'B.prec': 'int | PosInf', 'B.exp': 'int | NegInf',
                 'B.pos_bound': 'RealFloat | PosInf', 'B.neg_bound': 'RealFloat | NegInf'}
    split = ['A.prec', 'A.exp', 'A.pos_bound', 'A.neg_bound']
    properties = ['C14']
    # C14h_* grid contracts instead of the C05 ones; x - y inlined as x + (-y) (the C05 contract of __sub__ does not give the result exponent)
    no_use = ['RealFloat___add__', 'RealFloat___neg__', 'RealFloat___abs__', 'RealFloat___gt__', 'RealFloat___lt__', 'RealFloat___ge__', 'RealFloat___le__', 'RealFloat_normalize', 'RealFloat.__sub__']
    options = {'chain': True, 'opaque': {'Z': ['all', 'int']}, 'theory_light': True}

    def pre(A, B, a, b):
        return _prec_pre(A, B, a, b)

    def post(A, B, a, b):
        g = GRID()
        R = A - B
        s = a._real - b._real
        out = {}
        if all_finite(A) and all_finite(B):
            # x - y is computed as x + (-y): the negated operands' grid integers (fact `flip`)
            z_facts(B.pos_bound, g)
            z_facts(B.neg_bound, g)
            z_facts(b._real, g)
            z_facts(s, g)
            z_facts(R.pos_bound, g)
            z_facts(R.neg_bound, g)
            zs = Zr(s, g)
            out.update({
                'prec_int': not is_fl(R.prec),
                'bounds_fin': not is_fl(R.pos_bound) and not is_fl(R.neg_bound),
                'hi': zs <= Zr(R.pos_bound, g),
                'lo': Zr(R.neg_bound, g) <= zs,
                'mag': s._c <= imax(Zr(R.pos_bound, g), -Zr(R.neg_bound, g)),
            })
        out.update({'prec': implies(s._c != 0, prec_fits(s._c, R))})
        return out
