"""
C04 / P6: "arguments are never rounded on entry" -- `interpret.value.to_value` classifies a Python number crossing
into FPy WITHOUT changing its value:

    bool        passes through (it is not a number)
    int         the Float of exactly that integer (any magnitude: no detour through a C double)
    float       NaN -> NaN, +-inf -> +-inf, finite -> exactly the binary64 value, sign bit kept (so -0.0 stays -0.0)

The contexts named in the calls (INTEGER, FP64) are only labels here (`checked=False`): nothing is rounded.
Containers (rebuilt element-wise), RealFloat / Float / Fraction / Context / Foreign operands are not covered by this contract.
"""
from speclib import *
from spec.real import *
from spec.floats import *
from spec.c05 import *


class C04y_to_value_number(Contract):
    target = 'fpy2.interpret.value:to_value'
    params = {'arg': 'bool | int | float'}
    returns = 'bool | Float'
    properties = ['C04']
    split = ['arg']
    no_use = ['Float_from_int', 'Float_from_float']     # inlined: the constructors are called with a context label

    def post(arg, result):
        r = result
        if cls_name(arg) == 'bool':
            return {'bool_unchanged': cls_name(r) == 'bool' and r == arg}
        if cls_name(arg) == 'int':
            return {
                'is_float': cls_name(r) == 'Float',
                'finite': (not r._isnan and not r._isinf) if cls_name(r) == 'Float' else False,
                # exactly the integer: no rounding on entry, whatever its size
                'exact_int': t_is_int(trip(r), arg) if cls_name(r) == 'Float' else False,
                'sign': (r._real._s == (arg < 0)) if cls_name(r) == 'Float' else False,
            }
        out = {
            'is_float': cls_name(r) == 'Float',
            'nan': (r._isnan == f64_isnan(arg)) if cls_name(r) == 'Float' else False,
            'inf': (r._isinf == f64_isinf(arg)) if cls_name(r) == 'Float' else False,
            'sign_kept': (r._real._s == f64_sign(arg)) if cls_name(r) == 'Float' else False,
        }
        if f64_finite(arg):
            out.update({'exact_double': t_mag_eq(trip(r), trip(arg)) if cls_name(r) == 'Float' else False})
        return out

    def raises(arg):
        return {}
