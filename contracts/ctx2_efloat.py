"""C01 context layer (wave 2): EFloatContext -- special-value table, rounding through the derived MPB context."""
from speclib import *
from spec.real import *
from spec.floats import *
from spec.ctx import *
from spec.ctx2 import *
from fpy2.number.round import RoundingMode


class Float__with_flags(Contract):
    target = 'fpy2.number.number.floats:Float._with_flags'
    params = {'self': 'Float', 'other': 'Float'}
    returns = 'Float'
    properties = ['C01']
    binds = {'result._ctx': 'self._ctx'}

    def post(self, other, result):
        return {
            'value': same_real(result._real, self._real),
            'isnan': result._isnan == self._isnan,
            'isinf': result._isinf == self._isinf,
            # all seven flags come from `other`
            'flags': result._real._flags._flags == other._real._flags._flags,
        }

    def raises(self, other):
        return {}


class EFloatContext__fixup(Contract):
    target = 'fpy2.number.context.efloat:EFloatContext._fixup'
    params = {'self': 'EFloatContext', 'x': 'Float'}
    returns = 'Float'
    properties = ['C01']
    aliases = {'x._ctx': 'self'}          # callers set `x._ctx = self` first (obliged at call sites by pre[x_ctx])
    binds = {'result._ctx': 'self'}
    options = {'noax_first_ms': 4000, 'light_theory': True}

    def pre(self, x):
        return {'x_ctx': same_obj(x._ctx, self)}

    def post(self, x, result):
        return ef2_fixup_post(self, x, result)

    def raises(self, x):
        return {}


class EFloatFormat_maxval(Contract):
    target = 'fpy2.number.context.efloat:EFloatFormat.maxval'
    params = {'self': 'EFloatFormat', 's': 'bool'}
    returns = 'Float'
    properties = ['C01']
    no_use = ['EFloatFormat.representable_in']     # the C16 contract covers special values and zeros only: inline
    options = {'noax_first_ms': 4000, 'light_theory': True}

    def pre(self, s):
        return {'maxval_member': ef2_fmt_maxval_ok(self),
                # the only format whose -0 is not a member never asks for a negative largest value of zero
                'neg_zero': not (s and self._mpb_fmt.pos_maxval._c == 0 and self.nan_kind.name == 'NEG_ZERO')}

    def post(self, s, result):
        pm = self._mpb_fmt.pos_maxval
        return {
            'finite': fl_finite(result),
            'sign': result._real._s == s,
            'exp': result._real._exp == pm._exp,
            'c': result._real._c == pm._c,
            'ctx': result._ctx is None,
        }

    def raises(self, s):
        return {}


class EFloatContext_round(Contract):
    target = 'fpy2.number.context.efloat:EFloatContext.round'
    params = {'self': 'EFloatContext', 'x': 'RealFloat | Float', 'exact': 'bool'}
    returns = 'Float'
    properties = ['C01']
    binds = {'result._ctx': 'self'}
    # thin layer over MPBFloatContext.round + _fixup: the rounding function and the membership predicates stay folded
    options = {'noax_first_ms': 8000, 'light_theory': True,
               'opaque': {'fits_p': ['all', 'bool'], 'grid_ok': ['all', 'bool'], 'mag_lt_ec': ['all', 'bool'],
                          'rnd_at': ['all', 'tuple[int, int, bool, bool]']}}

    def pre(self, x, exact):
        return {'deterministic': self.num_randbits is not None and self.num_randbits == 0,
                'mpb_cfg': ef2_ctx_cfg(self),
                'subst_members': ef2_subst_ok(self)}

    def post(self, x, exact, result):
        return ef2_post(self, x, None, exact, result)

    def raises(self, x, exact):
        return ef2_raises(self, x, None, exact)


class EFloatContext_round_at(Contract):
    target = 'fpy2.number.context.efloat:EFloatContext.round_at'
    params = {'self': 'EFloatContext', 'x': 'RealFloat | Float', 'n': 'int', 'exact': 'bool'}
    returns = 'Float'
    properties = ['C01']
    binds = {'result._ctx': 'self'}
    # thin layer over MPBFloatContext.round + _fixup: the rounding function and the membership predicates stay folded
    options = {'noax_first_ms': 8000, 'light_theory': True,
               'opaque': {'fits_p': ['all', 'bool'], 'grid_ok': ['all', 'bool'], 'mag_lt_ec': ['all', 'bool'],
                          'rnd_at': ['all', 'tuple[int, int, bool, bool]']}}

    def pre(self, x, n, exact):
        return {'deterministic': self.num_randbits is not None and self.num_randbits == 0,
                'mpb_cfg': ef2_ctx_cfg(self),
                'subst_members': ef2_subst_ok(self)}

    def post(self, x, n, exact, result):
        return ef2_post(self, x, n, exact, result)

    def raises(self, x, n, exact):
        return ef2_raises(self, x, n, exact)


class EFloatContext_round_params(Contract):
    target = 'fpy2.number.context.efloat:EFloatContext.round_params'
    params = {'self': 'EFloatContext'}
    returns = 'tuple[int | None, int | None]'
    properties = ['C01']

    def pre(self):
        return {'mpb_cfg': ef2_ctx_cfg(self)}

    def post(self, result):
        # the derived format's precision p = nbits - es and least digit nmin = emin - p, widened by the random bits
        return widened2(self.nbits - self.es, ef2_emin(self.es, self.eoffset) - (self.nbits - self.es), self.num_randbits, result)

    def raises(self):
        return {}
