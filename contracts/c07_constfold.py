"""
C07 / O3: `const_fold.value_to_literal(v, loc)` emits a literal that DENOTES v, or None.

    bool                 BoolVal(v)
    Float, finite        a literal node whose value (spec.c06.lit_value) is exactly the real v denotes,
                         and the literal is the signed zero -0 iff v is -0
    Float NaN / inf      None (no literal form; never an approximation)
    float                as Float: non-finite -> None, else the exact value of the double, -0.0 keeps its sign
    int, Fraction        Integer / Rational of exactly v
    Context              ForeignVal(v)
    tuple / list         element-wise; None as soon as one element has no literal (modular over the elements)
    anything else        None

The literal denotation is the C06 specification (spec/c06.py: lit_value, lit_negzero, lit_ok).
"""
from speclib import *
from spec.real import *
from spec.floats import *
from spec.c05 import *
from spec.c06 import *
from spec.c07 import *


class rational_literal(Contract):
    target = 'fpy2.transform.const_fold:_rational_literal'
    params = {'val': 'Fraction', 'loc': 'None'}
    returns = 'Integer | Rational'
    properties = ['C07']

    def post(self, val, result):
        return {
            'wellformed': lit_ok(result),
            'value': lit_value(result) == val,              # never an approximation
            'not_negzero': not lit_negzero(result),
            'integer_iff': (cls_name(result) == 'Integer') == (frac_den(val) == 1),
        }

    def raises(self, val, loc):
        return {}


class value_to_literal_tuple(Contract):
    target = 'fpy2.transform.const_fold:value_to_literal'
    params = {'val': 'tuple[Float, int, bool]', 'loc': 'None'}
    returns = 'TupleExpr | None'
    properties = ['C07']
    inline = True
    note = ('containers: a 3-tuple (Float, int, bool); the element calls use the scalar contract value_to_literal '
            'modularly.  Lists take the same arm (`tuple() | list()`) and differ in the constructor only; not covered')

    def post(self, val, result):
        a, b, c = val
        ok = has_literal(a)
        return {
            # None as soon as one element has no literal form
            'none_iff': (result is None) == (not ok),
            'tuple': implies(ok, cls_name(result) == 'TupleExpr'),
            'arity': (len(result.elts) == 3) if cls_name(result) == 'TupleExpr' else not ok,
            'elt0': denotes(result.elts[0], a) if cls_name(result) == 'TupleExpr' else not ok,
            'elt1': denotes(result.elts[1], b) if cls_name(result) == 'TupleExpr' else not ok,
            'elt2': denotes(result.elts[2], c) if cls_name(result) == 'TupleExpr' else not ok,
        }

    def raises(self, val, loc):
        return {}


class value_to_literal(Contract):
    target = 'fpy2.transform.const_fold:value_to_literal'
    params = {'val': 'bool | Float | float | int | Fraction | Context | RealFloat | None', 'loc': 'None'}
    split = ['val']
    options = {'refute_bound': [8, 24, 1100]}      # counterexamples among binary64 zeros / subnormals need exponent -1074
    returns = 'BoolVal | Integer | Rational | Decnum | ForeignVal | None'
    properties = ['C07']
    note = ('scalar values, one case per kind; RealFloat / None stand for the values without a literal form '
            '(types, functions, modules, Foreign): every class not named in the match falls to `case _`')

    def post(self, val, result):
        k = cls_name(val)
        out = {}
        if k == 'bool':
            out.update({'bool': cls_name(result) == 'BoolVal' and result.val == val})
        if k == 'Float' or k == 'float':
            nar = fl_is_nar(val) if k == 'Float' else not f64_finite(val)
            negz = num_is_negzero(val)
            out.update({
                # NaN / infinity have no literal: None, never an approximation
                'nar_none': implies(nar, result is None),
                'finite_literal': implies(not nar, is_lit(result)),
                'wellformed': lit_ok(result) if is_lit(result) else nar,
                # the literal denotes exactly the value
                'value': (lit_value(result) == t_val_q(trip(val))) if is_lit(result) else nar,
                # ... including the sign of a zero
                'zero_sign': (lit_negzero(result) == negz) if is_lit(result) else nar,
            })
        if k == 'int' or k == 'Fraction':
            out.update({
                'literal': is_lit(result),
                'wellformed': lit_ok(result) if is_lit(result) else False,
                'value': (lit_value(result) == to_real(val)) if is_lit(result) else False,
                'not_negzero': (not lit_negzero(result)) if is_lit(result) else False,
            })
        if k == 'Context':
            out.update({'foreign': cls_name(result) == 'ForeignVal' and same_obj(result.val, val)})
        if k == 'RealFloat' or k == 'NoneType':
            out.update({'none': result is None})
        return out

    def raises(self, val, loc):
        return {}
