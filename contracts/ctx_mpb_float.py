"""C01 context layer: MPBFloatContext (MPSFloat with a largest value and an overflow mode)."""
from speclib import *
from spec.real import *
from spec.floats import *
from spec.ctx import *
from fpy2.number.round import RoundingMode


class MPBFloatContext__is_overflowing(Contract):
    target = 'fpy2.number.context.mpb_float:MPBFloatContext._is_overflowing'
    params = {'self': 'MPBFloatContext', 'x': 'RealFloat'}
    returns = 'bool'
    properties = ['C01']

    def post(self, x, result):
        # |x| exceeds the largest magnitude of x's sign
        return {
            'neg': implies(x._s, result == mag_lt_ec(self.neg_maxval._exp, self.neg_maxval._c, x._exp, x._c)),
            'pos': implies(not x._s, result == mag_lt_ec(self.pos_maxval._exp, self.pos_maxval._c, x._exp, x._c)),
        }

    def raises(self, x):
        return {}


class MPBFloatContext__overflow_to_infinity(Contract):
    target = 'fpy2.number.context.mpb_float:MPBFloatContext._overflow_to_infinity'
    params = {'self': 'MPBFloatContext', 's': 'bool'}
    returns = 'bool'
    properties = ['C01']

    def post(self, s, result):
        # K4: directed modes by sign, nearest modes to infinity; RTO / RTE (not prescribed): infinity
        return {'table': result == ovf_to_inf(self.rm, s, True, True)}

    def raises(self, s):
        return {}


class MPBFloatContext__round_at(Contract):
    target = 'fpy2.number.context.mpb_float:MPBFloatContext._round_at'
    params = {'self': 'MPBFloatContext', 'x': 'RealFloat | Float', 'n': 'int | None', 'exact': 'bool'}
    returns = 'Float'
    properties = ['C01']
    binds = {'result._ctx': 'self'}
    split = ['x', 'exact', 'n']
    options = {'light_theory': True, 'noax_first_ms': 8000}

    def pre(self, x, n, exact):
        return {'deterministic': self.num_randbits is not None and self.num_randbits == 0}

    def post(self, x, n, exact, result):
        return mpb_post(self, x, n, exact, result)

    def raises(self, x, n, exact):
        return mpb_raises(self, x, n, exact)


class MPBFloatContext_round(Contract):
    target = 'fpy2.number.context.mpb_float:MPBFloatContext.round'
    params = {'self': 'MPBFloatContext', 'x': 'RealFloat | Float', 'exact': 'bool'}
    returns = 'Float'
    properties = ['C01']
    binds = {'result._ctx': 'self'}
    options = {'noax_first_ms': 8000}

    def pre(self, x, exact):
        return {'deterministic': self.num_randbits is not None and self.num_randbits == 0}

    def post(self, x, exact, result):
        return mpb_post(self, x, None, exact, result)

    def raises(self, x, exact):
        return mpb_raises(self, x, None, exact)


class MPBFloatContext_round_at(Contract):
    target = 'fpy2.number.context.mpb_float:MPBFloatContext.round_at'
    params = {'self': 'MPBFloatContext', 'x': 'RealFloat | Float', 'n': 'int', 'exact': 'bool'}
    returns = 'Float'
    properties = ['C01']
    binds = {'result._ctx': 'self'}
    options = {'noax_first_ms': 8000}

    def pre(self, x, n, exact):
        return {'deterministic': self.num_randbits is not None and self.num_randbits == 0}

    def post(self, x, n, exact, result):
        return mpb_post(self, x, n, exact, result)

    def raises(self, x, n, exact):
        return mpb_raises(self, x, n, exact)
