"""
C02 extension (2): python-style modulus and fdim of the MPFR engine.

  Floor_rto            Lemma: floor / fractional-part test of a round-to-odd value with >= 2 fractional digits
  MPFREngine_mod_core  MPFREngine._mod:  x - floor(x / y) * y  from an exact floor quotient
  MPFREngine_mod       MPFREngine.mod  (declines Fractions / exact contexts)
  MPFREngine_fdim_core MPFREngine._fdim
  MPFREngine_fdim      MPFREngine.fdim
"""
from speclib import *
from spec.real import *
from spec.floats import *
from spec.c02 import *
from spec.c02x import *


class Floor_rto(Lemma):
    """
    y > 0 real with digits D = floor(y / 2^E), S = sticky below E, where E <= -2 (K = 2^-E = 4*H): the round-to-odd
    value c1 * 2^E, c1 = rto_c(D, S), has the same integer part as y and is an integer iff y is.
    Hence floor(RTO(y)) = floor(y) -- which needs the digits down to the units (n = -1) to be computed.
    """
    params = {'D': 'int', 'S': 'bool', 'K': 'int', 'H': 'int', 'neg': 'bool', 'd0': 'int', 's0': 'bool'}
    properties = ['C02']
    options = {'chain': True}

    def pre(self, D, S, K, H, neg, d0, s0):
        return {'D': D >= 0, 'K': K == 4 * H and H >= 1,
                'units': d0 == fdiv(D, K) and s0 == (S or fmod(D, K) != 0)}

    def post(self, D, S, K, H, neg, d0, s0):
        c1 = rto_c(D, S)
        q = fdiv(D, K)
        r = fmod(D, K)
        return {
            'div': D == q * K + r and 0 <= r and r < K,
            'parity': fmod(r, 2) == fmod(D, 2),
            'room': implies(fmod(D, 2) == 0, r + 1 < K),
            'c1': c1 == q * K + (r + (c1 - D)) and 0 <= r + (c1 - D) and r + (c1 - D) < K,
            'integer_part': fdiv(c1, K) == q,
            'remainder': fmod(c1, K) == r + (c1 - D),
            'fraction_iff': (fmod(c1, K) != 0) == (S or r != 0),
            # |floor| of the signed round-to-odd value == |floor| of the signed exact value
            'floor_mag': fdiv(c1, K) + b2i(neg and fmod(c1, K) != 0) == ite(neg, d0 + b2i(s0), d0),
        }


class Float_floor(Contract):
    """math.floor(x) for a Float: the largest integer <= x (Python data model `__floor__`)"""
    target = 'fpy2.number.number.floats:Float.__floor__'
    params = {'self': 'Float'}
    returns = 'int'
    properties = ['C02']
    options = {'split_heavy': True}

    def post(self, result):
        return {'floor': result == floor_int3(self._real._s, self._real._exp, self._real._c)}

    def raises(self):
        return {'ValueError': self._isnan or self._isinf}


class MPFREngine_mod_core(Contract):
    """
    Python modulus  x mod y = x - floor(x / y) * y  (the result is exact; ops rounds it once).
    Special values follow CPython's float `%` / C fmod conventions extended to signed zeros and infinities as the
    code documents them; the finite nonzero case is the exact value by exponent alignment.
    """
    target = 'fpy2.number.engine.gmp:MPFREngine._mod'
    params = {'self': 'MPFREngine', 'x': 'Float', 'y': 'Float', 'ctx': 'Context'}
    returns = 'Float'
    properties = ['C02']
    # ~4 min of solver time (nonlinear product |floor| * c_y through the inlined exact multiply / add): thorough tier only
    options = {'chain': True, 'solve_eqs': True, 'symbolic_tier': 'thorough'}
    no_use = ['Float___add__', 'Float___mul__', 'Float___neg__', 'RealFloat___add__', 'RealFloat___mul__',
              'RealFloat___neg__', 'Float_from_int', 'RealFloat_from_int', 'Float_from_real', 'RealFloat___int__']
    note = ('ASSUMED (axioms): sem(gmpy2.div)(x, y) = x / y for finite nonzero x, y: finite nonzero, sign = XOR, '
            'unit digits d0 = floor(|x| / |y|) stated by multiplication (d0*|y| <= |x| < (d0+1)*|y|), sticky iff '
            'd0*|y| != |x|; digit functions cohere between the scales E and 0')

    def axioms(self, x, y, ctx):
        gen = fl_finite(x) and fl_finite(y) and x._real._c != 0 and y._real._c != 0
        yq = app_id_floats(FID['gmpy2.div'], (x, y))
        E = rto_exp(y_e(yq), None, -1)
        K = pow2(-E)
        e0 = ite(x._real._exp <= y._real._exp, x._real._exp, y._real._exp)
        X = x._real._c * pow2(x._real._exp - e0)
        Y = y._real._c * pow2(y._real._exp - e0)
        d0 = y_dig(yq, 0)
        s0 = y_stk(yq, 0)
        return {
            'sem_class': implies(gen, not y_nan(yq) and not y_inf(yq) and not y_zero(yq)),
            'sem_sign': implies(gen, y_neg(yq) == (x._real._s != y._real._s)),
            'sem_units': implies(gen, d0 >= 0 and d0 * Y <= X and X < (d0 + 1) * Y),
            'sem_sticky': implies(gen, s0 == (d0 * Y != X)),
            'dig_nonneg': y_dig(yq, E) >= 0,
            'cohere_dig': d0 == fdiv(y_dig(yq, E), K),
            'cohere_stk': s0 == (y_stk(yq, E) or fmod(y_dig(yq, E), K) != 0),
        }

    def post(self, x, y, ctx, result):
        r = result
        nan_in = x._isnan or y._isnan
        xz = fl_finite(x) and x._real._c == 0
        yz = fl_finite(y) and y._real._c == 0
        gen = fl_finite(x) and fl_finite(y) and not xz and not yz
        yq = app_id_floats(FID['gmpy2.div'], (x, y))
        E = rto_exp(y_e(yq), None, -1)
        if gen:
            apply_lemma('Floor_rto', D=y_dig(yq, E), S=y_stk(yq, E), K=pow2(-E), H=pow2(-E - 2),
                        neg=x._real._s != y._real._s, d0=y_dig(yq, 0), s0=y_stk(yq, 0))
        d0 = y_dig(yq, 0)
        s0 = y_stk(yq, 0)
        qneg = x._real._s != y._real._s
        # |floor(x / y)|: toward minus infinity (spec: from the unit digits of the exact quotient)
        qmag = ite(qneg, d0 + b2i(s0), d0)
        # ... and as the code obtains it from the round-to-odd quotient with last digit at E <= -2
        qcode = floor_mag_rto(y_dig(yq, E), y_stk(yq, E), E, qneg)
        qv = floor_int3(qneg, E, rto_c(y_dig(yq, E), y_stk(yq, E)))     # the same, signed
        P = y._real._c * iabs(qv)                  # |floor(x/y) * y| in units of 2^y.exp
        psign = ite(qneg != y._real._s, -1, 1)     # sign of floor(x/y) * y
        e0 = ite(x._real._exp <= y._real._exp, x._real._exp, y._real._exp)
        e1 = ite(e0 <= r._real._exp, e0, r._real._exp)
        return {
            # NaN operand, infinite dividend, zero divisor: NaN (invalid is reported by ops._normalize)
            'nan': implies(nan_in or x._isinf or (not nan_in and yz), r._isnan and not r._isinf),
            'not_nan': implies(not nan_in and not x._isinf and not yz, not r._isnan),
            # finite x, infinite y: x when the signs agree, otherwise the result takes the sign of y: y itself
            'inf_divisor_same': implies(fl_finite(x) and y._isinf and not xz and x._real._s == y._real._s,
                                        fl_finite(r) and same_real(r._real, x._real)),
            'inf_divisor_diff': implies(fl_finite(x) and y._isinf and not xz and x._real._s != y._real._s,
                                        r._isinf and r._real._s == y._real._s),
            # a zero dividend gives a zero with the sign of the divisor
            'zero_dividend': implies(xz and not y._isnan and not yz,
                                     fl_finite(r) and r._real._c == 0 and r._real._s == y._real._s),
            # general case: the floor of the round-to-odd quotient is the floor of the exact quotient ...
            'quotient_is_floor': implies(gen, qcode == qmag),
            'quotient_signed': implies(gen, qv == ite(qneg, -qcode, qcode)),
            # ... and the result is exactly x - floor(x / y) * y
            'finite': implies(gen, fl_finite(r)),
            'exp': implies(gen, r._real._exp == e0 or r._real._c == 0 or qv == 0),
            'value': implies(gen, sv(r._real) * pow2(r._real._exp - e1)
                             == sv(x._real) * pow2(x._real._exp - e1) - psign * P * pow2(y._real._exp - e1)),
            # IEEE 754 6.3: an exact cancellation x - q*y is +0
            'cancel_sign': implies(gen and r._real._c == 0, not r._real._s),
        }

    def raises(self, x, y, ctx):
        return {}


class MPFREngine_mod(Contract):
    target = 'fpy2.number.engine.gmp:MPFREngine.mod'
    params = {'self': 'MPFREngine', 'x': 'Float | Fraction', 'y': 'Float | Fraction', 'ctx': 'Context'}
    returns = 'Float | None'
    properties = ['C02']

    def post(self, x, y, ctx, result):
        r = result
        if cls_name(x) == 'Fraction' or cls_name(y) == 'Fraction':
            return {'declines_fraction': r is None}
        if rp_prec_none(ctx) and rp_n_none(ctx):
            return {'declines_exact_context': r is None}
        return {'accepts': r is not None}

    def raises(self, x, y, ctx):
        return {}


class MPFREngine_fdim_core(Contract):
    """
    C99 7.12.12.1 fdim: x - y if x > y, +0 if x <= y, NaN if either is NaN.  The difference is the round-to-odd
    intermediate of the exact value sem(gmpy2.sub)(x, y) with the context's (prec, n); inf - inf cannot occur
    since x > y.
    """
    target = 'fpy2.number.engine.gmp:MPFREngine._fdim'
    params = {'self': 'MPFREngine', 'x': 'Float', 'y': 'Float', 'prec': 'int | None', 'n': 'int | None'}
    returns = 'Float'
    properties = ['C02']

    def pre(self, x, y, prec, n):
        return {'prec_pos': prec is None or prec >= 1, 'params': prec is not None or n is not None}

    def post(self, x, y, prec, n, result):
        r = result
        nan_in = x._isnan or y._isnan
        # x > y over the extended reals (the two zeros are equal)
        gt = (not nan_in
              and ite(x._isinf, not x._real._s and not (y._isinf and not y._real._s),
                      ite(y._isinf, y._real._s, dy_lt(y._real, x._real))))
        yd = app_id_floats(FID['gmpy2.sub'], (x, y))
        return {
            'nan': implies(nan_in, r._isnan and not r._isinf),
            'positive_zero': implies(not nan_in and not gt, fl_finite(r) and r._real._c == 0 and not r._real._s),
            'difference': implies(gt, rto_of(yd, r, prec, None) if prec is not None else rto_of(yd, r, None, n)),
        }

    def raises(self, x, y, prec, n):
        return {}


class MPFREngine_fdim(Contract):
    target = 'fpy2.number.engine.gmp:MPFREngine.fdim'
    params = {'self': 'MPFREngine', 'x': 'Float | Fraction', 'y': 'Float | Fraction', 'ctx': 'Context'}
    returns = 'Float | None'
    properties = ['C02']

    def post(self, x, y, ctx, result):
        r = result
        if cls_name(x) == 'Fraction' or cls_name(y) == 'Fraction':
            return {'declines_fraction': r is None}
        if rp_prec_none(ctx) and rp_n_none(ctx):
            return {'declines_exact_context': r is None}
        return {'accepts': r is not None}

    def raises(self, x, y, ctx):
        return {}
