"""
C01 context layer (wave 2): the fixed-width layers FixedContext / SMFixedContext (over MPBFixedContext) and
IEEEContext (over EFloatContext) only derive parameters; rounding is inherited unchanged.
Substitutes (nan_value / inf_value) are passed through untouched and are left at their default None here.
"""
from speclib import *
from spec.real import *
from spec.floats import *
from spec.ctx import *
from spec.ctx2 import *
from fpy2.number.round import RoundingMode


class FixedContext___init__(Contract):
    target = 'fpy2.number.context.fixed:FixedContext.__init__'
    params = {'self': 'FixedContext', 'signed': 'bool', 'scale': 'int', 'nbits': 'int', 'rm': 'RoundingMode',
              'overflow': 'OverflowMode', 'num_randbits': 'int | None', 'rng': 'RNG | None'}
    returns = 'None'
    properties = ['C01']
    binds = {'self.rng': 'rng'}
    split = ['signed']
    no_use = ['MPBFixedContext.__init__']     # super().__init__ on the subclass receiver: inlined
    options = {'noax_first_ms': 4000, 'light_theory': True}

    def post(self, signed, scale, nbits, rm, overflow, num_randbits, rng, result):
        return {
            'fields': self.signed == signed and self.scale == scale and self.nbits == nbits,
            'width': nbits >= 2 if signed else nbits >= 1,
            # two's complement words of nbits bits in units of 2^scale: no digit below scale, [-2^(nbits-1), 2^(nbits-1) - 1]
            # (unsigned: [0, 2^nbits - 1]); no NaN, no infinity, a single zero
            'nmin': self.nmin == scale - 1,
            'pos_maxval': not self.pos_maxval._s and self.pos_maxval._exp == scale
                          and self.pos_maxval._c == (pow2(nbits - 1) - 1 if signed else pow2(nbits) - 1),
            'neg_maxval': (self.neg_maxval._s and self.neg_maxval._exp == scale and self.neg_maxval._c == pow2(nbits - 1))
                          if signed else self.neg_maxval._c == 0,
            'specials': not self.enable_nan and not self.enable_inf and not self.enable_neg_zero,
            'no_subst': self.nan_value is None and self.inf_value is None,
            'rm': self.rm.name == rm.name,
            'overflow': self.overflow.name == overflow.name,
            'num_randbits': (self.num_randbits is None) if num_randbits is None
                            else (self.num_randbits is not None and self.num_randbits == num_randbits),
            'fmt_ordinals': mpbx_ordinals(self),
        }

    def raises(self, signed, scale, nbits, rm, overflow, num_randbits, rng):
        return {'ValueError': nbits < 2 if signed else nbits < 1}


class SMFixedContext___init__(Contract):
    target = 'fpy2.number.context.sm_fixed:SMFixedContext.__init__'
    params = {'self': 'SMFixedContext', 'scale': 'int', 'nbits': 'int', 'rm': 'RoundingMode',
              'overflow': 'OverflowMode', 'num_randbits': 'int | None', 'rng': 'RNG | None'}
    returns = 'None'
    properties = ['C01']
    binds = {'self.rng': 'rng'}
    no_use = ['MPBFixedContext.__init__']     # super().__init__ on the subclass receiver: inlined
    options = {'noax_first_ms': 4000, 'light_theory': True}

    def post(self, scale, nbits, rm, overflow, num_randbits, rng, result):
        return {
            'fields': self.scale == scale and self.nbits == nbits,
            'width': nbits >= 2,
            # sign bit | (nbits-1)-bit magnitude in units of 2^scale: +-(2^(nbits-1) - 1), both zeros
            'nmin': self.nmin == scale - 1,
            'pos_maxval': not self.pos_maxval._s and self.pos_maxval._exp == scale and self.pos_maxval._c == pow2(nbits - 1) - 1,
            'neg_maxval': self.neg_maxval._s and self.neg_maxval._exp == scale and self.neg_maxval._c == pow2(nbits - 1) - 1,
            'specials': not self.enable_nan and not self.enable_inf and self.enable_neg_zero,
            'no_subst': self.nan_value is None and self.inf_value is None,
            'rm': self.rm.name == rm.name,
            'overflow': self.overflow.name == overflow.name,
            'num_randbits': (self.num_randbits is None) if num_randbits is None
                            else (self.num_randbits is not None and self.num_randbits == num_randbits),
            'fmt_ordinals': mpbx_ordinals(self),
        }

    def raises(self, scale, nbits, rm, overflow, num_randbits, rng):
        # SMFixedFormat (what `format()` builds) needs a sign bit and at least one magnitude bit
        return {'ValueError': nbits < 2}


class IEEEContext___init__(Contract):
    target = 'fpy2.number.context.ieee754:IEEEContext.__init__'
    params = {'self': 'IEEEContext', 'es': 'int', 'nbits': 'int', 'rm': 'RoundingMode',
              'overflow': 'OverflowMode', 'num_randbits': 'int | None', 'rng': 'RNG | None'}
    returns = 'None'
    properties = ['C01']
    binds = {'self.rng': 'rng'}
    no_use = ['EFloatContext.__init__']       # super().__init__ on the subclass receiver: inlined
    options = {'noax_first_ms': 8000, 'light_theory': True,
               'opaque': {'fits_p': ['all', 'bool'], 'mag_lt_ec': ['all', 'bool']}}

    def post(self, es, nbits, rm, overflow, num_randbits, rng, result):
        return {
            # IEEE 754 interchange layout: infinities, NaNs in the top exponent, no exponent offset, no substitutes
            'fields': self.es == es and self.nbits == nbits and self.enable_inf and self.nan_kind.name == 'IEEE_754'
                      and self.eoffset == 0,
            'no_subst': self.nan_value is None and self.inf_value is None,
            'rm': self.rm.name == rm.name,
            'overflow': self.overflow.name == overflow.name,
            'num_randbits': (self.num_randbits is None) if num_randbits is None
                            else (self.num_randbits is not None and self.num_randbits == num_randbits),
            'inv': ef2_ctx_inv(self),
            'mpb_cfg': ef2_ctx_cfg(self),
        }

    def raises(self, es, nbits, rm, overflow, num_randbits, rng):
        # at least one exponent bit and one mantissa bit (room for infinity and NaN in the top exponent)
        return {'ValueError': overflow.name == 'WRAP' or not (es >= 1 and nbits - es >= 2)}
