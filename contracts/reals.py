from speclib import *
from spec.real import *


class RoundingMode_to_direction(Contract):
    target = 'fpy2.number.round:RoundingMode.to_direction'
    params = {'self': 'RoundingMode', 's': 'bool'}
    returns = 'tuple[bool, RoundingDirection]'
    properties = ['C01']

    def post(self, s, result):
        nearest, d = result
        nm = self.name
        return {
            'nearest': nearest == (nm == 'RNE' or nm == 'RNA'),
            'RNE': implies(nm == 'RNE', d.name == 'RTE'),
            'RNA': implies(nm == 'RNA', d.name == 'RAZ'),
            'RTP': implies(nm == 'RTP', ite(s, d.name == 'RTZ', d.name == 'RAZ')),
            'RTN': implies(nm == 'RTN', ite(s, d.name == 'RAZ', d.name == 'RTZ')),
            'RTZ': implies(nm == 'RTZ', d.name == 'RTZ'),
            'RAZ': implies(nm == 'RAZ', d.name == 'RAZ'),
            'RTO': implies(nm == 'RTO', d.name == 'RTO'),
            'RTE': implies(nm == 'RTE', d.name == 'RTE'),
        }

    def raises(self, s):
        return {}


class RealFloat__round_increment_direction(Contract):
    target = 'fpy2.number.number.reals:RealFloat._round_increment_direction'
    params = {'self': 'RealFloat', 'direction': 'RoundingDirection'}
    returns = 'bool'
    properties = ['C01']

    def post(self, direction, result):
        nm = direction.name
        return {
            'RTZ': implies(nm == 'RTZ', result == False),
            'RAZ': implies(nm == 'RAZ', result == True),
            'RTE': implies(nm == 'RTE', result == (fmod(self._c, 2) == 1)),
            'RTO': implies(nm == 'RTO', result == (fmod(self._c, 2) == 0)),
        }

    def raises(self, direction):
        return {}


class RealFloat__round_increment(Contract):
    target = 'fpy2.number.number.reals:RealFloat._round_increment'
    params = {'self': 'RealFloat', 'lost': 'RealFloat', 'n': 'int', 'rm': 'RoundingMode'}
    returns = 'bool'
    properties = ['C01']
    split = ['rm']

    def pre(self, lost, n, rm):
        return {
            'lost_nonzero': lost._c > 0,
            'lost_below_n': e_of(lost) <= n,
        }

    def post(self, lost, n, rm, result):
        # |x| = self.c * P + lost.c in units of 2^lost.exp, P = 2^(n+1-lost.exp)
        return {
            'incr': result == incr(rm, self._s, self._c, lost._c, pow2(n + 1 - lost._exp)),
        }

    def raises(self, lost, n, rm):
        return {}


class RealFloat_split(Contract):
    target = 'fpy2.number.number.reals:RealFloat.split'
    params = {'self': 'RealFloat', 'n': 'int'}
    returns = 'tuple[RealFloat, RealFloat]'
    properties = ['C01', 'C05', 'C20']

    def post(self, n, result):
        hi, lo = result
        c = self._c
        exp = self._exp
        sh = n + 1 - exp
        e = e_of(self)
        return {
            'fresh': not same_obj(hi, self) and not same_obj(lo, self) and not same_obj(hi, lo),
            'sign': hi._s == self._s and lo._s == self._s,
            'wf': hi._c >= 0 and lo._c >= 0,
            # hi holds only digits above n; lo only digits at or below n
            'hi_above': hi._exp > n,
            'lo_below': lo._c == 0 or e_of(lo) <= n,
            # shape (helper facts used by callers)
            'zero': implies(c == 0, hi._c == 0 and lo._c == 0 and hi._exp == n + 1 and lo._exp == n),
            'all_lo': implies(c != 0 and n >= e, hi._c == 0 and hi._exp == n + 1 and lo._c == c and lo._exp == exp),
            'all_hi': implies(c != 0 and n < exp, hi._c == c and hi._exp == exp and lo._c == 0 and lo._exp == n),
            'mixed': implies(c != 0 and n < e and n >= exp,
                             hi._exp == n + 1 and hi._c == fdiv(c, pow2(sh))
                             and lo._exp == exp and lo._c == fmod(c, pow2(sh))
                             and bl(hi._c) == bl(c) - sh and hi._c >= 1 and lo._c < pow2(sh)),
            # hi + lo == self exactly (aligned at lo's exponent when both nonzero)
            'sum': implies(c != 0 and n < e and n >= exp, hi._c * pow2(sh) + lo._c == c),
            'flags_clear': hi._flags._flags == 0 and lo._flags._flags == 0,
        }

    def raises(self, n):
        return {}


class RealFloat__round_params(Contract):
    target = 'fpy2.number.number.reals:RealFloat._round_params'
    params = {'self': 'RealFloat', 'max_p': 'int | None', 'min_n': 'int | None'}
    returns = 'tuple[int | None, int]'
    properties = ['C01']

    def post(self, max_p, min_n, result):
        p, n = result
        return {
            'p': (p is None) if max_p is None else (p is not None and p == max_p),
            'n': n == round_nstar(self, max_p, min_n),
        }

    def raises(self, max_p, min_n):
        return {'ValueError': max_p is None and min_n is None}
