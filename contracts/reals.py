from speclib import *
from spec.real import *
from fpy2.number.round import RoundingMode


class RoundingMode_to_direction(Contract):
    target = 'fpy2.number.round:RoundingMode.to_direction'
    params = {'self': 'RoundingMode', 's': 'bool'}
    returns = 'tuple[bool, RoundingDirection]'
    properties = ['C01']

    def post(self, s, result):
        nearest, d = result
        nm = self.name
        return {
            'nearest': nearest == (nm == 'RNE' or nm == 'RNA'),
            'RNE': implies(nm == 'RNE', d.name == 'RTE'),
            'RNA': implies(nm == 'RNA', d.name == 'RAZ'),
            'RTP': implies(nm == 'RTP', ite(s, d.name == 'RTZ', d.name == 'RAZ')),
            'RTN': implies(nm == 'RTN', ite(s, d.name == 'RAZ', d.name == 'RTZ')),
            'RTZ': implies(nm == 'RTZ', d.name == 'RTZ'),
            'RAZ': implies(nm == 'RAZ', d.name == 'RAZ'),
            'RTO': implies(nm == 'RTO', d.name == 'RTO'),
            'RTE': implies(nm == 'RTE', d.name == 'RTE'),
        }

    def raises(self, s):
        return {}


class RealFloat__round_increment_direction(Contract):
    target = 'fpy2.number.number.reals:RealFloat._round_increment_direction'
    params = {'self': 'RealFloat', 'direction': 'RoundingDirection'}
    returns = 'bool'
    properties = ['C01']

    def post(self, direction, result):
        nm = direction.name
        return {
            'RTZ': implies(nm == 'RTZ', result == False),
            'RAZ': implies(nm == 'RAZ', result == True),
            'RTE': implies(nm == 'RTE', result == (fmod(self._c, 2) == 1)),
            'RTO': implies(nm == 'RTO', result == (fmod(self._c, 2) == 0)),
        }

    def raises(self, direction):
        return {}


class RealFloat__round_increment(Contract):
    target = 'fpy2.number.number.reals:RealFloat._round_increment'
    params = {'self': 'RealFloat', 'lost': 'RealFloat', 'n': 'int', 'rm': 'RoundingMode'}
    returns = 'bool'
    properties = ['C01']
    split = ['rm']

    def pre(self, lost, n, rm):
        return {
            'lost_nonzero': lost._c > 0,
            'lost_below_n': e_of(lost) <= n,
        }

    def post(self, lost, n, rm, result):
        # |x| = self.c * P + lost.c in units of 2^lost.exp, P = 2^(n+1-lost.exp)
        return {
            'incr': result == incr(rm, self._s, self._c, lost._c, pow2(n + 1 - lost._exp)),
        }

    def raises(self, lost, n, rm):
        return {}


class RealFloat_split(Contract):
    target = 'fpy2.number.number.reals:RealFloat.split'
    params = {'self': 'RealFloat', 'n': 'int'}
    returns = 'tuple[RealFloat, RealFloat]'
    properties = ['C01', 'C05', 'C20']

    def post(self, n, result):
        hi, lo = result
        c = self._c
        exp = self._exp
        sh = n + 1 - exp
        e = e_of(self)
        return {
            'fresh': not same_obj(hi, self) and not same_obj(lo, self) and not same_obj(hi, lo),
            'sign': hi._s == self._s and lo._s == self._s,
            'wf': hi._c >= 0 and lo._c >= 0,
            # hi holds only digits above n; lo only digits at or below n
            'hi_above': hi._exp > n,
            'lo_below': lo._c == 0 or e_of(lo) <= n,
            # shape (helper facts used by callers)
            'zero': implies(c == 0, hi._c == 0 and lo._c == 0 and hi._exp == n + 1 and lo._exp == n),
            'all_lo': implies(c != 0 and n >= e, hi._c == 0 and hi._exp == n + 1 and lo._c == c and lo._exp == exp),
            'all_hi': implies(c != 0 and n < exp, hi._c == c and hi._exp == exp and lo._c == 0 and lo._exp == n),
            'mixed': implies(c != 0 and n < e and n >= exp,
                             hi._exp == n + 1 and hi._c == fdiv(c, pow2(sh))
                             and lo._exp == exp and lo._c == fmod(c, pow2(sh))
                             and bl(hi._c) == bl(c) - sh and hi._c >= 1 and lo._c < pow2(sh)),
            # hi + lo == self exactly (aligned at lo's exponent when both nonzero)
            'sum': implies(c != 0 and n < e and n >= exp, hi._c * pow2(sh) + lo._c == c),
            'flags_clear': hi._flags._flags == 0 and lo._flags._flags == 0,
        }

    def raises(self, n):
        return {}


class RealFloat__round_params(Contract):
    target = 'fpy2.number.number.reals:RealFloat._round_params'
    params = {'self': 'RealFloat', 'max_p': 'int | None', 'min_n': 'int | None'}
    returns = 'tuple[int | None, int]'
    properties = ['C01']

    def post(self, max_p, min_n, result):
        p, n = result
        return {
            'p': (p is None) if max_p is None else (p is not None and p == max_p),
            'n': n == round_nstar(self, max_p, min_n),
        }

    def raises(self, max_p, min_n):
        return {'ValueError': max_p is None and min_n is None}


class RealFloat__tiny_post(Contract):
    target = 'fpy2.number.number.reals:RealFloat._tiny_post'
    params = {'self': 'RealFloat', 'kept': 'RealFloat', 'emin': 'int', 'n': 'int', 'rm': 'RoundingMode'}
    returns = 'bool'
    properties = ['C01']
    split = ['rm']
    # the re-rounding argument (cutoff compare + re-split one digit lower) does not go through the
    # solver unbounded on 1-3 paths per mode; those path-queries are checked with pow2/bit_length
    # interpreted and every exponent / width inside [0, 20] -- a bounded stand-in, never counted as proved
    options = {'bounded': 20, 'bounded_try_ms': 4000, 'symbolic_tier': 'thorough'}     # ~1000 s of solver time: thorough tier

    def pre(self, kept, emin, n, rm):
        # call site (_round_at): self is tiny and inexact at n; kept is the rounded result at n
        # with precision p = emin - n
        R = rnd_at(self, emin - n, n, rm)
        return {
            'tiny': self._c > 0 and e_of(self) < emin,
            'p_pos': emin - n >= 1,
            'inexact': R[2],
            'kept_sign': kept._s == self._s,
            'kept_exp': kept._exp == R[0],
            'kept_c': kept._c == R[1],
        }

    def post(self, kept, emin, n, rm, result):
        return {'tiny_post': result == tiny_post_spec(self, n, emin, rm)}

    def raises(self, kept, emin, n, rm):
        return {}


class RealFloat__round_at(Contract):
    target = 'fpy2.number.number.reals:RealFloat._round_at'
    params = {'self': 'RealFloat', 'p': 'int | None', 'n': 'int', 'emin': 'int | None',
              'rm': 'RoundingMode', 'exact': 'bool'}
    returns = 'RealFloat'
    properties = ['C01', 'C17']
    split = ['rm']

    def pre(self, p, n, emin, rm, exact):
        return {
            'p_pos': p is None or p >= 1,
            # derived from the call sites: the position is never below e - p
            'n_ge_e_minus_p': p is None or self._c == 0 or n >= e_of(self) - p,
            'emin_rel': emin is None or (p is not None and (self._c == 0 or e_of(self) >= emin or emin == p + n)),
        }

    def post(self, p, n, emin, rm, exact, result):
        r = result
        R = rnd_at(self, p, n, rm)
        return {
            'fresh': not same_obj(r, self),
            'sign': r._s == self._s,
            'wf': r._c >= 0,
            'exp': r._exp == R[0],
            'c': r._c == R[1],
            'inexact': r._flags.inexact == R[2],
            'carry': r._flags.carry == R[3],
            'tiny_pre': r._flags.tiny_pre == tiny_pre_spec(self, emin),
            'tiny_post': r._flags.tiny_post == tiny_post_spec(self, n, emin, rm),
            'other_flags': not r._flags.invalid and not r._flags.divzero and not r._flags.overflow,
            'member_n': r._exp > n,
            'member_p': p is None or bl(r._c) <= p,
        }

    def raises(self, p, n, emin, rm, exact):
        return {'ValueError': exact and rnd_at(self, p, n, rm)[2]}


class RealFloat__generate_randbits(Contract):
    target = 'fpy2.number.number.reals:RealFloat._generate_randbits'
    params = {'self': 'RealFloat', 'rng': 'RNG | None', 'k': 'int'}
    returns = 'int'
    properties = ['C17']
    trusted = True
    note = 'random sources return an integer in [0, 2^k); the draw is the ghost value draw(k)'

    def pre(self, rng, k):
        return {'k_nonneg': k >= 0}

    def post(self, rng, k, result):
        return {'range': 0 <= result and result < pow2(k), 'ghost': result == ghost('draw', k)}


class RealFloat__round_at_stochastic(Contract):
    target = 'fpy2.number.number.reals:RealFloat._round_at_stochastic'
    params = {'self': 'RealFloat', 'p': 'int | None', 'n': 'int', 'emin': 'int | None',
              'rm': 'RoundingMode', 'num_randbits': 'int | None', 'rng': 'RNG | None', 'exact': 'bool'}
    returns = 'RealFloat'
    properties = ['C17']
    split = ['rm']
    # path-queries that neither prove nor refute within budget (nonlinear: nested divisions by
    # symbolic powers of two) fall back to a bounded check, exponents/widths <= 12, reported as bounded
    # `opaque`: the final call self._round_at(p, n, emin, RAZ|RTZ) is specified by rnd_at(self, p, n, mode); its
    # definition is not needed to show that the *choice* of mode is right, so calls rnd_at(self, p, n, .) are
    # abstracted to an uninterpreted function of the mode (the extended-precision call rnd_at(self, None, n-k, rm)
    # stays transparent)
    options = {'call_counts': {'RealFloat._generate_randbits': 1}, 'bounded_fallback': 12, 'bounded_ms': 60000,
               'split_heavy': True, 'opaque': {'rnd_at': [['self', 'p', 'n'], 'tuple[int, int, bool, bool]']},
               'symbolic_tier': 'thorough', 'optional_symbolic': True}

    def pre(self, p, n, emin, rm, num_randbits, rng, exact):
        return {
            'p_pos': p is None or p >= 1,
            'n_ge_e_minus_p': p is None or self._c == 0 or n >= e_of(self) - p,
            'emin_rel': emin is None or (p is not None and (self._c == 0 or e_of(self) >= emin or emin == p + n)),
            'k_nonneg': num_randbits is None or num_randbits >= 0,
            'not_exact': not exact,
        }

    def post(self, p, n, emin, rm, num_randbits, rng, exact, result):
        r = result
        sh = n + 1 - self._exp
        k = (ite(sh >= 0, sh, 0)) if num_randbits is None else num_randbits
        out = {
            'sign': r._s == self._s,
            'wf': r._c >= 0,
            'member_p': p is None or bl(r._c) <= p,
            'member_n': r._exp > n,
            'tiny_pre': r._flags.tiny_pre == tiny_pre_spec(self, emin),
            'other_flags': not r._flags.invalid and not r._flags.divzero and not r._flags.overflow,
            'fresh': not same_obj(r, self),
        }
        grid = on_grid(self, n)
        lo = rnd_at(self, p, n, RoundingMode.RTZ)
        hi = rnd_at(self, p, n, RoundingMode.RAZ)
        away = (False if grid else sr_away(self, n, k, rm, ghost('draw', k)))
        out.update({
            # Z2: representable => unchanged (and exact)
            'Z2_exp': implies(grid, r._exp == lo[0]),
            'Z2_c': implies(grid, r._c == lo[1]),
            'Z2_exact': implies(grid, not r._flags.inexact),
            # Z3: otherwise exactly one of the two neighbours, chosen by draw + L >= 2^k
            'Z3_exp': implies(not grid, r._exp == ite(away, hi[0], lo[0])),
            'Z3_c': implies(not grid, r._c == ite(away, hi[1], lo[1])),
            'Z3_inexact': implies(not grid, r._flags.inexact),
        })
        return out

    def raises(self, p, n, emin, rm, num_randbits, rng, exact):
        return {}

    native_bound_note = ('thorough: all operands c < 48, exp in [-3, 3], positions n in [-2, 3], k in {None, 0, 1, 2, 3} with '
                         'every one of the 2^k draws, p in {None, 2, 3, 5} (emin = p + n or None), both signs, all 8 modes; '
                         'quick: c < 20, k <= 2 (all-bits k <= 3)')

    @staticmethod
    def native_grid():
        """bounded stand-in: exhaustive native enumeration (labelled bounded, never counted as proved)"""
        import replay
        from fpy2.number.number.reals import RealFloat
        from fpy2.number.round import RoundingMode as RM
        import os
        quick = os.environ.get('VERIF_TIER', 'quick') != 'thorough'
        for rm in RM:
            for s in (False, True):
                for c in range(0, 20 if quick else 48):
                    for exp in range(-3, 4):
                        x = RealFloat(s, exp, c)
                        for n in range(-2, 4):
                            for p in (None, 2, 3, 5):
                                emin = None if p is None else p + n
                                for k in ((None, 0, 1, 2) if quick else (None, 0, 1, 2, 3)):
                                    kk = max(0, n + 1 - exp) if k is None else k
                                    if kk > (3 if quick else 4):
                                        continue
                                    for d in range(1 << kk):
                                        fn = (lambda dd: (lambda kq: dd))(d)
                                        yield ({'self': x, 'p': p, 'n': n, 'emin': emin, 'rm': rm, 'num_randbits': k,
                                                'rng': replay.ScriptedRandom(fn), 'exact': False}, {'draw': fn})


class RealFloat_round(Contract):
    target = 'fpy2.number.number.reals:RealFloat.round'
    params = {'self': 'RealFloat', 'max_p': 'int | None', 'min_n': 'int | None', 'rm': 'RoundingMode',
              'num_randbits': 'int | None', 'rng': 'RNG | None', 'exact': 'bool'}
    returns = 'RealFloat'
    properties = ['C01', 'C17']
    # `round` only computes the position n* and delegates: the definitions of rnd_at / tiny_post_spec are not
    # needed to show that it passes the right (p, n, emin, rm) on -- they are abstracted to uninterpreted
    # functions of all their arguments (congruence only)
    options = {'opaque': {'rnd_at': ['all', 'tuple[int, int, bool, bool]'], 'tiny_post_spec': ['all', 'bool']}, 'quant': True}

    def pre(self, max_p, min_n, rm, num_randbits, rng, exact):
        return {
            'p_pos': max_p is None or max_p >= 1,
            'k_nonneg': num_randbits is None or num_randbits >= 0,
            'stochastic_not_exact': (num_randbits is not None and num_randbits == 0) or not exact,
        }

    def post(self, max_p, min_n, rm, num_randbits, rng, exact, result):
        r = result
        n = round_nstar(self, max_p, min_n)
        det = num_randbits is not None and num_randbits == 0
        emin = (max_p + min_n) if (max_p is not None and min_n is not None) else None
        out = {
            'fresh': not same_obj(r, self),
            'sign': r._s == self._s,
            'wf': r._c >= 0,
            # R1 membership
            'member_n': min_n is None or r._exp > min_n,
            'member_p': max_p is None or bl(r._c) <= max_p,
            'tiny_pre': r._flags.tiny_pre == tiny_pre_spec(self, emin),
            'other_flags': not r._flags.invalid and not r._flags.divzero and not r._flags.overflow,
        }
        if det:
            # deterministic: the correctly rounded value and truthful flags
            R = rnd_at(self, max_p, n, rm)
            out.update({
                'exp': r._exp == R[0],
                'c': r._c == R[1],
                'inexact': r._flags.inexact == R[2],
                'carry': r._flags.carry == R[3],
                'tiny_post': r._flags.tiny_post == tiny_post_spec(self, n, emin, rm),
            })
        else:
            # stochastic (C17): Z2 / Z3
            sh = n + 1 - self._exp
            k = (ite(sh >= 0, sh, 0)) if num_randbits is None else num_randbits
            grid = on_grid(self, n)
            lo = rnd_at(self, max_p, n, RoundingMode.RTZ)
            hi = rnd_at(self, max_p, n, RoundingMode.RAZ)
            away = (False if grid else sr_away(self, n, k, rm, ghost('draw', k)))
            out.update({
                'Z2_exp': implies(grid, r._exp == lo[0]),
                'Z2_c': implies(grid, r._c == lo[1]),
                'Z2_exact': implies(grid, not r._flags.inexact),
                'Z3_exp': implies(not grid, r._exp == ite(away, hi[0], lo[0])),
                'Z3_c': implies(not grid, r._c == ite(away, hi[1], lo[1])),
                'Z3_inexact': implies(not grid, r._flags.inexact),
            })
        return out

    def raises(self, max_p, min_n, rm, num_randbits, rng, exact):
        return {
            'ValueError': (max_p is None and min_n is None)
                          or (exact and (max_p is not None or min_n is not None)
                              and rnd_at(self, max_p, round_nstar(self, max_p, min_n), rm)[2]),
        }


class RealFloat_compare(Contract):
    target = 'fpy2.number.number.reals:RealFloat.compare'
    params = {'self': 'RealFloat', 'other': 'RealFloat'}
    returns = 'Ordering | None'
    properties = ['C05', 'C17', 'C01']
    note = 'contract for the RealFloat x RealFloat case; other operand types are covered by C05 contracts'

    def post(self, other, result):
        return {
            'not_none': result is not None,
            'less': ((result.name == 'LESS') == dy_lt(self, other)) if result is not None else True,
            'equal': ((result.name == 'EQUAL') == dy_eqv(self, other)) if result is not None else True,
            'greater': ((result.name == 'GREATER') == dy_lt(other, self)) if result is not None else True,
        }

    def raises(self, other):
        return {}
