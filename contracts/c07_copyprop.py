"""
C07 / O1: copy propagation only substitutes plain copies whose source is stable.

`CopyPropagate.apply_with_status(func, names)` collects a substitution `prop: AssignDef -> Var` over the
definitions of `DefineUse.analyze(func)` and hands it to `SubstVar.apply`.  Mechanism contract:

  every (d -> e) put in `prop`:   d is a plain assignment `x = y`, e is that `y`             (inv0 plain_copy, rhs)
                                  and at every use u of d the definition of y reaching u is the
                                  definition of y reaching the copy                          (inv0 stable)
  the same for the whole run:     every definition the pass selects is stable                (post safe)

ASSUMED (trusted, abstract interface): DefineUse.analyze returns the analysis of the function (ghost field
func.def_use, stand-in spec.c07.DUModel, shape spec.c07.du_wellformed incl. R0-R2: every reaching definition of a name
is a member of name_to_defs[name]); SubstVar.apply returns some FuncDef (its rewriting rule is O2,
contracts/c07_subst.py); SyntaxCheck.check may reject.
"""
from speclib import *
from spec.c07 import *


class DefineUse_analyze(Contract):
    target = 'fpy2.analysis.define_use:DefineUse.analyze'
    params = {'ast': 'FuncDefM'}
    returns = 'DUModel'
    properties = ['C07']
    trusted = True
    options = {'result_is': 'ast.def_use'}
    note = ('ASSUMED: DefineUse.analyze(f) is the definition-use analysis of f, named by the ghost field f.def_use; '
            'nothing is assumed about its content (defs / uses / reaching definitions are uninterpreted)')


class SubstVar_apply(Contract):
    target = 'fpy2.transform.subst_var:SubstVar.apply'
    params = {'func': 'FuncDefM', 'def_use': 'DUModel', 'subst': 'dict[Key[Definition], Key[Expr]]'}
    returns = 'FuncDefM'
    properties = ['C07']
    trusted = True
    note = 'ASSUMED: SubstVar.apply returns some FuncDef and does not raise (the per-use rewriting rule is O2: SubstVar__visit_var)'

    def raises(self, func, def_use, subst):
        return {}


class C07_SyntaxCheck_check(Contract):
    target = 'fpy2.analysis.syntax_check:SyntaxCheck.check'
    params = {'func': 'FuncDefM', 'ignore_unknown': 'bool'}
    returns = 'None'
    properties = ['C07']
    trusted = True
    may_raise = ['FPySyntaxError']
    note = 'ASSUMED: the post-transform syntax check returns None or raises FPySyntaxError (not part of C07)'


class CopyPropagate_apply_with_status(Contract):
    target = 'fpy2.transform.copy_propagate:CopyPropagate.apply_with_status'
    params = {'func': 'FuncDefM', 'names': 'set[NamedId] | None'}
    returns = 'tuple[FuncDefM, bool]'
    properties = ['C07']
    may_raise = ['FPySyntaxError']
    native_candidates = 'spec.c07_ref:copyprop_candidates'
    native_ghosts = 'spec.c07_ref:GHOSTS'
    native_universe = 'spec.c07_ref:key_universe'
    native_demo = 'spec.c07_ref:demo'
    native_stubs = {'fpy2.analysis.define_use:DefineUse.analyze': 'spec.c07_ref:stub_analyze'}
    options = {'local_types': {'prop': 'dict[Key[Definition], Key[Expr]]'}, 'key_attrs': 'spec.c07:KEY_ATTRS',
               'feas_ms': 40}     # quantified facts: a satisfiable feasibility check only ever times out (unknown = feasible)
    note = ('verified: the loop over def_use.defs (symbolic length) with invariant inv0; reaching definitions are '
            'uninterpreted (spec.c07.reach_use / reach_site).  The pass skips a copy x = y when y has more than one '
            'definition (len(name_to_defs[y]) > 1); `stable` follows from that test under the ASSUMED well-formedness of the '
            'analysis (spec.c07.du_wellformed R0-R2): defs lists every definition once, and every reaching definition of a '
            'name -- at the copy and at every use of the copy -- exists and is a member of name_to_defs[name]; hence a name with '
            'at most one definition has the same reaching definition wherever it is defined.  R0-R2 are checked natively on '
            'sample programs by tools/c07_wellformed.py, never verified.')

    def inv0(self, func, names, prop, def_use, done):
        du = func.def_use
        return {
            'du': same_obj(def_use, du),
            # only definitions of the requested names ...
            'names': forall_keys('Definition', lambda k: implies(k in prop, name_selected(names, k))),
            # only plain copies `x = y` enter the substitution ...
            'plain_copy': forall_keys('Definition', lambda k: implies(k in prop, plain_copy(k))),
            # ... mapped to their own right-hand side
            'rhs': forall_keys('Definition', lambda k: implies(k in prop, map_val(prop, k) == copy_rhs(k))),
            # ... and only when the copied-from variable has the same reaching definition at every rewritten use
            'stable': forall_keys('Definition', lambda k: implies(k in prop, stable(func, k))),
            # `selected` describes exactly what the pass rewrites (so that `safe` cannot hold vacuously)
            'only_selected': forall_keys('Definition', lambda k: implies(k in prop, (k in du.uses) and selected(func, names, k))),
            'all_selected': forall_ints(lambda i: implies(0 <= i and i < done and selected(func, names, seq_at(du.defs, i)),
                                                          seq_at(du.defs, i) in prop)),
            # every definition the pass selects among the first `done` is stable
            'safe': forall_ints(lambda i: implies(0 <= i and i < done and selected(func, names, seq_at(du.defs, i)),
                                                  stable(func, seq_at(du.defs, i)))),
        }

    def post(self, func, names, result):
        f2, changed = result
        du = func.def_use
        n = seq_len(du.defs)
        return {
            'unchanged': implies(not changed, same_obj(f2, func)),
            # the pass only reports a change when it rewrote a selected (hence stable) copy
            'changed_only_if_selected': implies(changed, not forall_keys('Definition', lambda k: not ((k in du.uses) and selected(func, names, k)))),
            'safe': implies(changed, forall_ints(lambda i: implies(0 <= i and i < n and selected(func, names, seq_at(du.defs, i)),
                                                                  stable(func, seq_at(du.defs, i))))),
        }

    def raises(self, func, names):
        return {}
