"""
C16 (second part): the ordinal stepping of OrdinalFormat (format.py), verified on the concrete format
MPBFloatFormat (the format underneath EFloatFormat / IEEEFormat): next_up / next_down / _next_towards /
_next_away move by exactly one ordinal; with allow_inf the infinities are the ordinals one beyond the extreme ones.
"""
from speclib import *
from spec.real import *
from spec.floats import *
from spec.c16 import *
from spec.c16x import *


class OrdinalFormat__next_towards__MPBFloat(Contract):
    target = 'fpy2.number.context.format:OrdinalFormat._next_towards'
    params = {'self': 'MPBFloatFormat', 'x': 'Float', 'y': 'Float', 'allow_inf': 'bool'}
    returns = 'Float'
    properties = ['C16']
    options = {'opaque': {'mps_ord': ['all', 'int'], 'mps_canonical': ['all', 'bool'], 'mps_inF': ['all', 'bool'], 'mpbfl_inF': ['all', 'bool']}, 'light_axioms': True}

    def pre(self, x, y, allow_inf):
        return {'bounds': mpbfl_bounds(self),
                'x_member': mpbfl_inF(self, x) and not x._isnan,
                # private helper: every caller has rejected an infinite x unless allow_inf
                'x_inf_allowed': not x._isinf or allow_inf,
                'y_ok': not y._isnan and (y._isinf or mpbfl_inF(self, y))}

    def post(self, x, y, allow_inf, result):
        return mpbfl_step_post(self, x, mpbfl_dir_towards(self, x, y), result)

    def raises(self, x, y, allow_inf):
        return {'ValueError': mpbfl_step_fails(self, x, mpbfl_dir_towards(self, x, y), allow_inf)}


class OrdinalFormat__next_away__MPBFloat(Contract):
    target = 'fpy2.number.context.format:OrdinalFormat._next_away'
    params = {'self': 'MPBFloatFormat', 'x': 'Float', 'y': 'Float', 'allow_inf': 'bool'}
    returns = 'Float'
    properties = ['C16']
    options = {'opaque': {'mps_ord': ['all', 'int'], 'mps_canonical': ['all', 'bool'], 'mps_inF': ['all', 'bool'], 'mpbfl_inF': ['all', 'bool']}, 'light_axioms': True}

    def pre(self, x, y, allow_inf):
        return {'bounds': mpbfl_bounds(self),
                'x_member': mpbfl_inF(self, x) and not x._isnan,
                # private helper: every caller has rejected an infinite x unless allow_inf
                'x_inf_allowed': not x._isinf or allow_inf,
                'y_ok': not y._isnan and (y._isinf or mpbfl_inF(self, y))}

    def post(self, x, y, allow_inf, result):
        return mpbfl_step_post(self, x, -mpbfl_dir_towards(self, x, y), result)

    def raises(self, x, y, allow_inf):
        return {'ValueError': mpbfl_step_fails(self, x, -mpbfl_dir_towards(self, x, y), allow_inf)}


class OrdinalFormat_next_up__MPBFloat(Contract):
    target = 'fpy2.number.context.format:OrdinalFormat.next_up'
    params = {'self': 'MPBFloatFormat', 'x': 'Float', 'allow_inf': 'bool'}
    returns = 'Float'
    properties = ['C16']
    options = {'opaque': {'mps_ord': ['all', 'int'], 'mps_canonical': ['all', 'bool'], 'mps_inF': ['all', 'bool'], 'mpbfl_inF': ['all', 'bool']}, 'light_axioms': True}

    def pre(self, x, allow_inf):
        return {'bounds': mpbfl_bounds(self)}

    def post(self, x, allow_inf, result):
        # B5: one ordinal up (-inf counts as the ordinal below ord(neg_maxval) when infinities are allowed)
        return mpbfl_step_post(self, x, 1, result)

    def raises(self, x, allow_inf):
        return {'ValueError': not mpbfl_inF(self, x) or x._isnan or (x._isinf and not allow_inf)
                              or (x._isinf and not x._real._s)
                              or mpbfl_step_fails(self, x, 1, allow_inf)}


class OrdinalFormat_next_down__MPBFloat(Contract):
    target = 'fpy2.number.context.format:OrdinalFormat.next_down'
    params = {'self': 'MPBFloatFormat', 'x': 'Float', 'allow_inf': 'bool'}
    returns = 'Float'
    properties = ['C16']
    options = {'opaque': {'mps_ord': ['all', 'int'], 'mps_canonical': ['all', 'bool'], 'mps_inF': ['all', 'bool'], 'mpbfl_inF': ['all', 'bool']}, 'light_axioms': True}

    def pre(self, x, allow_inf):
        return {'bounds': mpbfl_bounds(self)}

    def post(self, x, allow_inf, result):
        return mpbfl_step_post(self, x, -1, result)

    def raises(self, x, allow_inf):
        return {'ValueError': not mpbfl_inF(self, x) or x._isnan or (x._isinf and not allow_inf)
                              or (x._isinf and x._real._s)
                              or mpbfl_step_fails(self, x, -1, allow_inf)}
