"""
C15 / D1, D3: the environment of the syntax checker (`_Env`) and the use check (`_mark_use`).

Keys: a `NamedId` is modelled as an opaque hashable key (`Key[NamedId]`, an uninterpreted sort whose
equality is NamedId.__eq__; assumes __eq__/__hash__ are consistent).  `_Env.env: dict[NamedId, bool]`
is a symbolic map with real dict semantics (pyvc/containers.py).
"""
from speclib import *
from spec.c15 import *


class Env_extend(Contract):
    target = 'fpy2.analysis.syntax_check:_Env.extend'
    params = {'self': '_Env', 'var': 'Key[NamedId]'}
    returns = '_Env'
    properties = ['C15']

    def post(self, var, result):
        return {
            'terminated': result.terminated == self.terminated,
            'adds': bound(result, var),
            'others_known': forall_keys('NamedId', lambda k: implies(k != var, known(result, k) == known(self, k))),
            'others_bound': forall_keys('NamedId', lambda k: implies(k != var, bound(result, k) == bound(self, k))),
            'fresh': not same_obj(result, self),
        }

    def raises(self, var):
        return {}


class Env_merge(Contract):
    target = 'fpy2.analysis.syntax_check:_Env.merge'
    params = {'self': '_Env', 'other': '_Env'}
    returns = '_Env'
    properties = ['C15']
    note = ('the loop over `self.env.keys() | other.env.keys()` is verified with the invariant inv0 '
            '(done = set of keys already processed)')

    def inv0(self, other, copy, done):
        return {
            'live': not copy.terminated,
            'inputs_live': (not self.terminated) and (not other.terminated),
            'keys': forall_keys('NamedId', lambda k: known(copy, k) == (k in done)),
            'and': forall_keys('NamedId', lambda k: implies(k in done, bound(copy, k) == (bound(self, k) and bound(other, k)))),
        }

    def post(self, other, result):
        both = self.terminated and other.terminated
        neither = (not self.terminated) and (not other.terminated)
        return {
            'terminated': result.terminated == both,
            'absorb_self': implies(self.terminated and not other.terminated,
                                   forall_keys('NamedId', lambda k: bound(result, k) == bound(other, k))),
            'absorb_other': implies(other.terminated and not self.terminated,
                                    forall_keys('NamedId', lambda k: bound(result, k) == bound(self, k))),
            'pointwise_and': implies(neither,
                                     forall_keys('NamedId', lambda k: bound(result, k) == (bound(self, k) and bound(other, k)))),
            'absent_false': implies(neither,
                                    forall_keys('NamedId', lambda k: known(result, k) == (known(self, k) or known(other, k)))),
        }

    def raises(self, other):
        return {}


class SyntaxCheckInstance__mark_use(Contract):
    target = 'fpy2.analysis.syntax_check:SyntaxCheckInstance._mark_use'
    params = {'self': 'SyntaxCheckInstance', 'name': 'Key[NamedId]', 'env': '_Env', 'ignore_missing': 'bool'}
    returns = 'None'
    properties = ['C15']
    modifies = ['self.free_var_args']

    def post(self, name, env, ignore_missing, result, old):
        return {
            'checked': ignore_missing or bound(env, name),
            'free_var_args': forall_keys('NamedId', lambda k: (k in self.free_var_args) ==
                                         ((k in old.self.free_var_args) or (k == name and (name in self.free_vars)))),
        }

    def raises(self, name, env, ignore_missing):
        return {'FPySyntaxError': (not ignore_missing) and not bound(env, name)}
