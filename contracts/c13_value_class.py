"""
C13 / A1: the value-class transfer functions are sound abstractions of the exact Float arithmetic.
"""
from speclib import *
from spec.c13 import *


class VC_add_sound(Lemma):
    params = {'x': 'Float', 'y': 'Float'}
    properties = ['C13']

    def post(x, y):
        r = x + y
        return {'sound': class_of(r) in _exact_add(class_of(x), class_of(y))}
