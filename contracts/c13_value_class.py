"""
C13 / A1: the value-class lattice and its transfer functions (fpy2/analysis/value_class.py) are sound
abstractions of the exact Float arithmetic.

Concrete side: symbolic `Float` operands; the exact operations are `Float.__add__`, `__sub__`, `__mul__`,
`__neg__`, `__abs__` (their C05 contracts, used modularly) -- the operations the exact engine applies under
the REAL context.  Abstract side: the 16-element Flag lattice, enumerated (`split`), because the engine has
concrete flag values only.  See spec/c13.py for how singleton soundness (S) and join-distributivity (J)
compose to the soundness statement for arbitrary class sets.
"""
from speclib import *
from spec.c13 import *


class VC_class_of(Contract):
    target = 'fpy2.analysis.value_class:class_of'
    params = {'x': 'Float'}
    returns = 'ValueClass'
    properties = ['C13']
    inline = True      # a modular result would be a symbolic flag; callers inline the four-way test

    def post(self, x, result):
        fin = not x._isnan and not x._isinf
        return {
            'atom': vc_is_atom(result),
            'nan': (result == ValueClass.NAN) == x._isnan,
            'inf': (result == ValueClass.INF) == x._isinf,
            'zero': (result == ValueClass.ZERO) == (fin and x._real._c == 0),
            'finite': (result == ValueClass.FINITE) == (fin and x._real._c != 0),
        }

    def raises(self, x):
        return {}


# ---------------------------------------------------------------------------
# (S) singleton soundness, symbolic Floats

class VC_add_sound(Lemma):
    """class_of(x + y) is in _exact_add({class_of x}, {class_of y})"""
    params = {'x': 'Float', 'y': 'Float'}
    properties = ['C13']

    def post(x, y):
        r = x + y
        return {'sound': class_of(r) in _exact_add(class_of(x), class_of(y))}


class VC_sub_sound(Lemma):
    """`a - b` uses the same table: class_of(x - y) is in _exact_add({class_of x}, {class_of y})"""
    params = {'x': 'Float', 'y': 'Float'}
    properties = ['C13']

    def post(x, y):
        r = x - y
        return {'sound': class_of(r) in _exact_add(class_of(x), class_of(y))}


class VC_mul_sound(Lemma):
    """class_of(x * y) is in _exact_mul({class_of x}, {class_of y})"""
    params = {'x': 'Float', 'y': 'Float'}
    properties = ['C13']

    def post(x, y):
        r = x * y
        return {'sound': class_of(r) in _exact_mul(class_of(x), class_of(y))}


class VC_neg_abs_sound(Lemma):
    """Neg / Abs pass the operand's class through (`_visit_unaryop`: `_rounded(e, a)`, the identity transfer)"""
    params = {'x': 'Float'}
    properties = ['C13']

    def post(x):
        return {'neg': class_of(-x) == class_of(x), 'abs': class_of(abs(x)) == class_of(x)}


# ---------------------------------------------------------------------------
# (J) the transfer functions on the finite lattice: all 16 x 16 abstract values (split = parallel concrete cases)

class VC_exact_add(Contract):
    target = 'fpy2.analysis.value_class:_exact_add'
    params = {'a': 'ValueClass', 'b': 'ValueClass'}
    returns = 'ValueClass'
    properties = ['C13']
    split = ['a', 'b']
    inline = True

    def post(self, a, b, result):
        return {
            # the join-extension of its values on atoms: monotone and distributes over joins in each argument
            'join_distributive': result == vc_lift2(_exact_add, a, b),
            'monotone': vc_monotone2(_exact_add, a, b),
            'commutative': result == _exact_add(b, a),
            # an operand that nothing reaches produces nothing
            'strict': (result == vc_bot()) == (a == vc_bot() or b == vc_bot()),
        }

    def raises(self, a, b):
        return {}


class VC_exact_mul(Contract):
    target = 'fpy2.analysis.value_class:_exact_mul'
    params = {'a': 'ValueClass', 'b': 'ValueClass'}
    returns = 'ValueClass'
    properties = ['C13']
    split = ['a', 'b']
    inline = True

    def post(self, a, b, result):
        return {
            'join_distributive': result == vc_lift2(_exact_mul, a, b),
            'monotone': vc_monotone2(_exact_mul, a, b),
            'commutative': result == _exact_mul(b, a),
            'strict': (result == vc_bot()) == (a == vc_bot() or b == vc_bot()),
        }

    def raises(self, a, b):
        return {}


class VC_map_tables(Lemma):
    """`_map(table, a)` is the join of the table rows of the atoms of a, for the two tables of the module
    (so it is strict, monotone and join-distributive), and every row is keyed by an atom."""
    params = {'a': 'ValueClass'}
    properties = ['C13']
    split = ['a']

    def post(a):
        return {
            'logb_join': _map(_LOGB, a) == vc_lift1(_LOGB, a),
            'pow_join': _map(_POW_POS_BASE, a) == vc_lift1(_POW_POS_BASE, a),
            'logb_monotone': all([vc_subset(_map(_LOGB, a), _map(_LOGB, a2)) for a2 in vc_all() if vc_subset(a, a2)]),
            'pow_monotone': all([vc_subset(_map(_POW_POS_BASE, a), _map(_POW_POS_BASE, a2)) for a2 in vc_all() if vc_subset(a, a2)]),
            'logb_total': len(_LOGB) == 4 and all([p in _LOGB for p in VC_ATOMS]),
            'pow_total': len(_POW_POS_BASE) == 4 and all([p in _POW_POS_BASE for p in VC_ATOMS]),
        }


class VC_logb_sound(Lemma):
    """class_of(logb(x)) under the REAL context (fpy2.ops.logb, rounding is the identity) is in _map(_LOGB, {class_of x})"""
    params = {'x': 'Float'}
    properties = ['C13']

    def post(x):
        r = ops_logb(x, REAL)
        return {'sound': class_of(r) in _map(_LOGB, class_of(x))}


# ---------------------------------------------------------------------------
# the same statements for the exact engine that evaluates Add / Sub / Mul / Neg / Abs under the REAL context
# (fpy2/number/engine/real.py, through its C02 contracts); `ops.add` etc. dispatch to it and then apply
# REAL rounding, the identity (the dispatch over the engine registry is not covered)

class VC_engine_add_sound(Lemma):
    params = {'eng': 'RealEngine', 'x': 'Float', 'y': 'Float'}
    properties = ['C13']

    def post(eng, x, y):
        r = eng.add(x, y, REAL)
        return {'sound': (class_of(r) in _exact_add(class_of(x), class_of(y))) if cls_name(r) == 'Float' else False}


class VC_engine_sub_sound(Lemma):
    params = {'eng': 'RealEngine', 'x': 'Float', 'y': 'Float'}
    properties = ['C13']

    def post(eng, x, y):
        r = eng.sub(x, y, REAL)
        return {'sound': (class_of(r) in _exact_add(class_of(x), class_of(y))) if cls_name(r) == 'Float' else False}


class VC_engine_mul_sound(Lemma):
    params = {'eng': 'RealEngine', 'x': 'Float', 'y': 'Float'}
    properties = ['C13']

    def post(eng, x, y):
        r = eng.mul(x, y, REAL)
        return {'sound': (class_of(r) in _exact_mul(class_of(x), class_of(y))) if cls_name(r) == 'Float' else False}


class VC_engine_neg_abs_sound(Lemma):
    params = {'eng': 'RealEngine', 'x': 'Float'}
    properties = ['C13']

    def post(eng, x):
        n = eng.neg(x, REAL)
        a = eng.fabs(x, REAL)
        return {'neg': (class_of(n) == class_of(x)) if cls_name(n) == 'Float' else False,
                'abs': (class_of(a) == class_of(x)) if cls_name(a) == 'Float' else False}


class VC_engine_pow_sound(Lemma):
    """`b ** y` for a positive (finite, non-zero) base b, where the exact engine has a result: its class is in
    _map(_POW_POS_BASE, {class_of y}).  (The engine answers only for an integer exponent; other exponents have
    no result under REAL.)  Not covered: a negative exponent with a base that is not a power of two (pre `covered`)."""
    params = {'eng': 'RealEngine', 'b': 'Float', 'y': 'Float'}
    properties = ['C13']

    def pre(eng, b, y):
        return {'positive_base': not b._isnan and not b._isinf and b._real._c > 0 and not b._real._s,
                # engine limit (Fraction ** symbolic negative int): a negative exponent only with a power-of-two base;
                # the excluded case is b ** -n = 1 / b ** n, a positive rational
                'covered': y._isnan or y._isinf or not y._real._s or y._real._c == 0
                           or b._real._c == pow2(bl(b._real._c) - 1)}

    def post(eng, b, y):
        r = eng.pow(b, y, REAL)
        s = _map(_POW_POS_BASE, class_of(y))
        return {'sound': True if r is None else
                         ((class_of(r) in s) if cls_name(r) == 'Float' else
                          ((r != 0 and vc_has(s, ValueClass.FINITE)) or (r == 0 and vc_has(s, ValueClass.ZERO))))}


# ---------------------------------------------------------------------------
# A4: the phi join of the analysis (`_merge_phis`, `_fixpoint`, `_visit_if_expr`: `lhs | rhs`) and the refinement
# meet (`_refined`: `mask & cls`) on the Flag lattice: | is the least upper bound, & the greatest lower bound of
# set inclusion; TOP / the empty flag are the extremes.  All 16 x 16 (x 16) values.

class VC_join_meet(Lemma):
    params = {'a': 'ValueClass'}
    properties = ['C13']
    split = ['a']

    def post(a):
        vs = vc_all()
        return {
            'join_commutative': all([(a | b) == (b | a) for b in vs]),
            'join_idempotent': (a | a) == a,
            'join_upper_bound': all([vc_subset(a, a | b) and vc_subset(b, a | b) for b in vs]),
            'join_least': all([vc_subset(a | b, c) for b in vs for c in vs if vc_subset(a, c) and vc_subset(b, c)]),
            'join_associative': all([((a | b) | c) == (a | (b | c)) for b in vs for c in vs]),
            'meet_commutative': all([(a & b) == (b & a) for b in vs]),
            'meet_lower_bound': all([vc_subset(a & b, a) and vc_subset(a & b, b) for b in vs]),
            'meet_greatest': all([vc_subset(c, a & b) for b in vs for c in vs if vc_subset(c, a) and vc_subset(c, b)]),
            'extremes': vc_subset(a, ValueClass.TOP) and vc_subset(vc_bot(), a) and (a | vc_bot()) == a and (a & ValueClass.TOP) == a,
            # membership (`in`) agrees with inclusion of an atom
            'membership': all([(p in a) == vc_has(a, p) for p in VC_ATOMS]),
            # the concretisation is monotone: a class set contains an atom iff one of its atoms is that atom
            'atoms': a == vc_join(vc_atoms(a)),
        }
