"""
C19x: the visitor's dispatch and the listing's `match` pick the SAME row for a node.

`Visitor._visit_expr` / `_visit_statement` (fpy2/ast/visitor.py) walk `type(node).__mro__` through the dispatch
tables; `sub_exprs` / `sub_blocks` (fpy2/transform/path.py) `match` on the class.  The row of VISIT_ORDER that the
listing contracts use is `kind_of(node)` (first visit-method class the node is an instance of).  Here: the method the
dispatch reaches is the one of that row, for every statement class and for representatives of every expression class
that has its own dispatch entry or inherits one (Round, RoundAt, Cast have explicit entries; Add, Neg, Sqrt, Fma,
Max, And, ConstPi, Sum, Range3, Zip ... reach theirs through a base class).
"""
from speclib import *
from spec.c19x import *


class dispatch_statement(Contract):
    target = 'fpy2.ast.visitor:Visitor._visit_statement'
    params = {'self': 'KindProbe',
              'stmt': 'Assign | IndexedAssign | If1Stmt | IfStmt | WhileStmt | ForStmt | ContextStmt | AssertStmt | EffectStmt | ReturnStmt | PassStmt',
              'ctx': 'None'}
    returns = 'str'
    properties = ['C19']
    split = ['stmt']
    inline = True

    def post(self, stmt, ctx, result):
        return {'row_of_the_listing': result == kind_of(stmt)}

    def raises(self, stmt, ctx):
        return {}


class dispatch_expr(Contract):
    target = 'fpy2.ast.visitor:Visitor._visit_expr'
    params = {'self': 'KindProbe',
              'e': 'Var | BoolVal | ForeignVal | Decnum | Hexnum | Integer | Rational | Digits | Call | Compare | TupleExpr | ListExpr | ListComp | ListRef | ListSlice | IfExpr | Attribute',
              'ctx': 'None'}
    returns = 'str'
    properties = ['C19']
    split = ['e']
    inline = True

    def post(self, e, ctx, result):
        return {'row_of_the_listing': result == kind_of(e)}

    def raises(self, e, ctx):
        return {}


class dispatch_operator(Contract):
    target = 'fpy2.ast.visitor:Visitor._visit_expr'
    params = {'self': 'KindProbe',
              'e': 'NullaryOp | UnaryOp | BinaryOp | TernaryOp | NaryOp | Round | RoundAt | Cast | Add | Neg | Not | Sqrt | Fma | Max | And | ConstPi | Sum | Range3 | Zip | Size',
              'ctx': 'None'}
    returns = 'str'
    properties = ['C19']
    split = ['e']
    inline = True

    def post(self, e, ctx, result):
        return {'row_of_the_listing': result == kind_of(e)}

    def raises(self, e, ctx):
        return {}
