"""
C20x: error-free transformations -- BOUNDED stand-ins (never counted as proved) for EVERY rounding mode and
for odd and even precisions.

FPy dialect (pyvc/fpydialect.py) with rnd DEFINED at p significant digits and an unbounded exponent range (no
overflow / underflow of any term) under the rounding mode `rm` (pyvc/fpyround.py; the definition is cross-checked
against fpy2's MPFloatContext by tools/c20x_rounding_native.py).  Operands range over ALL p-digit significands
and all exponents in [-E, E]:  a = ma * 2^ea, |ma| < 2^p, |ea| <= E.  Each clause is decided by exhaustive
evaluation of its bit-vector query over that box (pyvc/bvenum.py; option 'bv_enum'), with the SAT solver as fall-back.

Which modes does the documented precondition admit?

  function        docstring precondition                       modes checked here
  priest_2sum     "the rounding context is floating point"     all eight (RNE RNA RTP RTN RTZ RAZ RTO RTE)
  fast_2mul       "the rounding context is floating point"     all eight
  fast_2sum       floating point, round-nearest, |a| >= |b|    RNE, RNA
  classic_2sum    floating point, round-nearest                RNE, RNA
  classic_2mul    floating point, round-nearest                RNE, RNA
  classic_2fma    floating point, round-nearest                RNE, RNA
  veltkamp_split  (none stated; Veltkamp's theorem is for round-to-nearest)   RNE, RNA  (one contract per p: every 1 <= s <= p - 1)

classic_2fma is checked on the box ea = eb = 0, ec in [-6,6] (three operands); contracts/c20_eft_bounded.py keeps the
full box |e| <= 6 for p = 3 under RNE.  Every function is covered for ODD and even p in {2,3,4,5}.
"""
from speclib import *
from spec.c20 import *
from spec.c20x import *

class eftx_priest_2sum(Contract):
    target = 'fpy2.libraries.eft:priest_2sum'
    params = {'ma': 'int', 'ea': 'int', 'mb': 'int', 'eb': 'int', 'p': 'int', 'rm': 'RoundingMode', 'ctx': 'FpyCtx'}
    returns = 'tuple[Fraction, Fraction]'
    properties = ['C20']
    split = ['p', 'rm']
    options = {'dialect': 'fpy', 'fpy_rnd': 'param', 'bounded': 6, 'bv_enum': True, 'bounded_try_ms': 150000, 'bounded_ms': 60000,
               'int_cases': {'p': [2, 3, 4, 5]}, 'fpy_operands': {'a': ('ma', 'ea'), 'b': ('mb', 'eb')}}
    note = ('BOUNDED: every rounding mode at p digits, p in {2,3,4,5}, all p-digit significands, exponents in [-6,6]; '
            'only "floating-point context" is assumed, so the exact-sum clause is claimed under every mode; '
            'the first result is claimed faithful (one of the two p-digit neighbours of a + b)')

    def pre(ma, ea, mb, eb, p, rm, ctx):
        return {'ma': -pow2(p) < ma and ma < pow2(p), 'ea': -6 <= ea and ea <= 6,
                'mb': -pow2(p) < mb and mb < pow2(p), 'eb': -6 <= eb and eb <= 6}

    def post(ma, ea, mb, eb, p, rm, ctx, result):
        a = fpy_operand(ma, ea)
        b = fpy_operand(mb, eb)
        s, t = fpy_val(result)
        return {
            'exact': s + t == a + b,
            # faithful: s is the sum rounded down or rounded up (both equal the sum when it is representable)
            's_faithful': s == fpy_rnd_mode(a + b, p, 'RTN') or s == fpy_rnd_mode(a + b, p, 'RTP'),
        }

    def raises(ma, ea, mb, eb, p, rm, ctx):
        return {}


class eftx_fast_2mul(Contract):
    target = 'fpy2.libraries.eft:fast_2mul'
    params = {'ma': 'int', 'ea': 'int', 'mb': 'int', 'eb': 'int', 'p': 'int', 'rm': 'RoundingMode', 'ctx': 'FpyCtx'}
    returns = 'tuple[Fraction, Fraction]'
    properties = ['C20']
    split = ['p', 'rm']
    options = {'dialect': 'fpy', 'fpy_rnd': 'param', 'bounded': 6, 'bv_enum': True, 'bounded_try_ms': 150000, 'bounded_ms': 60000,
               'int_cases': {'p': [2, 3, 4, 5]}, 'fpy_operands': {'a': ('ma', 'ea'), 'b': ('mb', 'eb')}}
    note = ('BOUNDED: every rounding mode at p digits, p in {2,3,4,5}, all p-digit significands, exponents in [-6,6]; '
            'only "floating-point context" is assumed (fma available; the error of a p x p-digit product has <= p digits)')

    def pre(ma, ea, mb, eb, p, rm, ctx):
        return {'ma': -pow2(p) < ma and ma < pow2(p), 'ea': -6 <= ea and ea <= 6,
                'mb': -pow2(p) < mb and mb < pow2(p), 'eb': -6 <= eb and eb <= 6}

    def post(ma, ea, mb, eb, p, rm, ctx, result):
        a = fpy_operand(ma, ea)
        b = fpy_operand(mb, eb)
        s, t = fpy_val(result)
        return {'s_rounded_product': s == fpy_rnd(ctx, a * b), 'exact': s + t == a * b}

    def raises(ma, ea, mb, eb, p, rm, ctx):
        return {}


class eftx_fast_2sum(Contract):
    target = 'fpy2.libraries.eft:fast_2sum'
    params = {'ma': 'int', 'ea': 'int', 'mb': 'int', 'eb': 'int', 'p': 'int', 'rm': 'RoundingMode', 'ctx': 'FpyCtx'}
    returns = 'tuple[Fraction, Fraction]'
    properties = ['C20']
    split = ['p', 'rm']
    options = {'dialect': 'fpy', 'fpy_rnd': 'param', 'bounded': 6, 'bv_enum': True, 'bounded_try_ms': 150000, 'bounded_ms': 60000,
               'int_cases': {'p': [2, 3, 4, 5]}, 'enum_cases': {'rm': ['RNE', 'RNA']},
               'fpy_operands': {'a': ('ma', 'ea'), 'b': ('mb', 'eb')}}
    note = ('BOUNDED: the two round-to-nearest modes (RNE, RNA: the documented precondition "round-nearest") at p digits, '
            'p in {2,3,4,5}, all p-digit significands, exponents in [-6,6]; precondition |a| >= |b|')

    def pre(ma, ea, mb, eb, p, rm, ctx):
        a = fpy_operand(ma, ea)
        b = fpy_operand(mb, eb)
        return {'ma': -pow2(p) < ma and ma < pow2(p), 'ea': -6 <= ea and ea <= 6,
                'mb': -pow2(p) < mb and mb < pow2(p), 'eb': -6 <= eb and eb <= 6,
                'ordered': abs(a) >= abs(b)}

    def post(ma, ea, mb, eb, p, rm, ctx, result):
        a = fpy_operand(ma, ea)
        b = fpy_operand(mb, eb)
        s, t = fpy_val(result)
        return {'s_rounded_sum': s == fpy_rnd(ctx, a + b), 'exact': s + t == a + b}

    def raises(ma, ea, mb, eb, p, rm, ctx):
        return {}


class eftx_classic_2sum(Contract):
    target = 'fpy2.libraries.eft:classic_2sum'
    params = {'ma': 'int', 'ea': 'int', 'mb': 'int', 'eb': 'int', 'p': 'int', 'rm': 'RoundingMode', 'ctx': 'FpyCtx'}
    returns = 'tuple[Fraction, Fraction]'
    properties = ['C20']
    split = ['p', 'rm']
    options = {'dialect': 'fpy', 'fpy_rnd': 'param', 'bounded': 6, 'bv_enum': True, 'bounded_try_ms': 150000, 'bounded_ms': 60000,
               'int_cases': {'p': [2, 3, 4, 5]}, 'enum_cases': {'rm': ['RNE', 'RNA']},
               'fpy_operands': {'a': ('ma', 'ea'), 'b': ('mb', 'eb')}}
    note = ('BOUNDED: the two round-to-nearest modes (RNE, RNA) at p digits, p in {2,3,4,5}, all p-digit significands, '
            'exponents in [-6,6]; no ordering precondition (Knuth / Moller)')

    def pre(ma, ea, mb, eb, p, rm, ctx):
        return {'ma': -pow2(p) < ma and ma < pow2(p), 'ea': -6 <= ea and ea <= 6,
                'mb': -pow2(p) < mb and mb < pow2(p), 'eb': -6 <= eb and eb <= 6}

    def post(ma, ea, mb, eb, p, rm, ctx, result):
        a = fpy_operand(ma, ea)
        b = fpy_operand(mb, eb)
        s, t = fpy_val(result)
        return {'s_rounded_sum': s == fpy_rnd(ctx, a + b), 'exact': s + t == a + b}

    def raises(ma, ea, mb, eb, p, rm, ctx):
        return {}


class eftx_veltkamp_split_p2(Contract):
    target = 'fpy2.libraries.eft:veltkamp_split'
    params = {'mx': 'int', 'ex': 'int', 's': 'int', 'p': 'int', 'rm': 'RoundingMode', 'ctx': 'FpyCtx'}
    returns = 'tuple[Fraction, Fraction]'
    properties = ['C20']
    split = ['p', 's', 'rm']
    options = {'dialect': 'fpy', 'fpy_rnd': 'param', 'bounded': 6, 'bv_enum': True, 'bounded_try_ms': 150000, 'bounded_ms': 60000,
               'int_cases': {'p': [2], 's': [1]}, 'enum_cases': {'rm': ['RNE', 'RNA']},
               'fpy_operands': {'x': ('mx', 'ex')}}
    note = ('BOUNDED: RNE and RNA at p = 2 digits, EVERY split position 1 <= s <= p - 1 (enough precision: the constant '
            '2^s + 1 must be representable), exponents in [-6,6]; includes the split point ceil(p/2) that classic_2mul uses')

    def pre(mx, ex, s, p, rm, ctx):
        return {'mx': -pow2(p) < mx and mx < pow2(p), 'ex': -6 <= ex and ex <= 6, 's_range': 1 <= s and s <= p - 1}

    def post(mx, ex, s, p, rm, ctx, result):
        x = fpy_operand(mx, ex)
        hi, lo = fpy_val(result)
        return {
            'exact': hi + lo == x,
            'lo_small': abs(lo) * pow2(p - s) <= abs(hi) * 1 or x == 0,
            'hi_fits': hi == fpy_rne(hi, p - s),
            # radix 2: the low part even fits s - 1 digits when s >= 2 (its sign carries one digit); s digits always
            'lo_fits': lo == fpy_rne(lo, s),
            'hi_nearest': abs(hi - x) == abs(fpy_rne(x, p - s) - x),
        }

    def raises(mx, ex, s, p, rm, ctx):
        return {}


class eftx_veltkamp_split_p3(Contract):
    target = 'fpy2.libraries.eft:veltkamp_split'
    params = {'mx': 'int', 'ex': 'int', 's': 'int', 'p': 'int', 'rm': 'RoundingMode', 'ctx': 'FpyCtx'}
    returns = 'tuple[Fraction, Fraction]'
    properties = ['C20']
    split = ['p', 's', 'rm']
    options = {'dialect': 'fpy', 'fpy_rnd': 'param', 'bounded': 6, 'bv_enum': True, 'bounded_try_ms': 150000, 'bounded_ms': 60000,
               'int_cases': {'p': [3], 's': [1, 2]}, 'enum_cases': {'rm': ['RNE', 'RNA']},
               'fpy_operands': {'x': ('mx', 'ex')}}
    note = ('BOUNDED: RNE and RNA at p = 3 digits, EVERY split position 1 <= s <= p - 1 (enough precision: the constant '
            '2^s + 1 must be representable), exponents in [-6,6]; includes the split point ceil(p/2) that classic_2mul uses')

    def pre(mx, ex, s, p, rm, ctx):
        return {'mx': -pow2(p) < mx and mx < pow2(p), 'ex': -6 <= ex and ex <= 6, 's_range': 1 <= s and s <= p - 1}

    def post(mx, ex, s, p, rm, ctx, result):
        x = fpy_operand(mx, ex)
        hi, lo = fpy_val(result)
        return {
            'exact': hi + lo == x,
            'lo_small': abs(lo) * pow2(p - s) <= abs(hi) * 1 or x == 0,
            'hi_fits': hi == fpy_rne(hi, p - s),
            # radix 2: the low part even fits s - 1 digits when s >= 2 (its sign carries one digit); s digits always
            'lo_fits': lo == fpy_rne(lo, s),
            'hi_nearest': abs(hi - x) == abs(fpy_rne(x, p - s) - x),
        }

    def raises(mx, ex, s, p, rm, ctx):
        return {}


class eftx_veltkamp_split_p4(Contract):
    target = 'fpy2.libraries.eft:veltkamp_split'
    params = {'mx': 'int', 'ex': 'int', 's': 'int', 'p': 'int', 'rm': 'RoundingMode', 'ctx': 'FpyCtx'}
    returns = 'tuple[Fraction, Fraction]'
    properties = ['C20']
    split = ['p', 's', 'rm']
    options = {'dialect': 'fpy', 'fpy_rnd': 'param', 'bounded': 6, 'bv_enum': True, 'bounded_try_ms': 150000, 'bounded_ms': 60000,
               'int_cases': {'p': [4], 's': [1, 2, 3]}, 'enum_cases': {'rm': ['RNE', 'RNA']},
               'fpy_operands': {'x': ('mx', 'ex')}}
    note = ('BOUNDED: RNE and RNA at p = 4 digits, EVERY split position 1 <= s <= p - 1 (enough precision: the constant '
            '2^s + 1 must be representable), exponents in [-6,6]; includes the split point ceil(p/2) that classic_2mul uses')

    def pre(mx, ex, s, p, rm, ctx):
        return {'mx': -pow2(p) < mx and mx < pow2(p), 'ex': -6 <= ex and ex <= 6, 's_range': 1 <= s and s <= p - 1}

    def post(mx, ex, s, p, rm, ctx, result):
        x = fpy_operand(mx, ex)
        hi, lo = fpy_val(result)
        return {
            'exact': hi + lo == x,
            'lo_small': abs(lo) * pow2(p - s) <= abs(hi) * 1 or x == 0,
            'hi_fits': hi == fpy_rne(hi, p - s),
            # radix 2: the low part even fits s - 1 digits when s >= 2 (its sign carries one digit); s digits always
            'lo_fits': lo == fpy_rne(lo, s),
            'hi_nearest': abs(hi - x) == abs(fpy_rne(x, p - s) - x),
        }

    def raises(mx, ex, s, p, rm, ctx):
        return {}


class eftx_veltkamp_split_p5(Contract):
    target = 'fpy2.libraries.eft:veltkamp_split'
    params = {'mx': 'int', 'ex': 'int', 's': 'int', 'p': 'int', 'rm': 'RoundingMode', 'ctx': 'FpyCtx'}
    returns = 'tuple[Fraction, Fraction]'
    properties = ['C20']
    split = ['p', 's', 'rm']
    options = {'dialect': 'fpy', 'fpy_rnd': 'param', 'bounded': 6, 'bv_enum': True, 'bounded_try_ms': 150000, 'bounded_ms': 60000,
               'int_cases': {'p': [5], 's': [1, 2, 3, 4]}, 'enum_cases': {'rm': ['RNE', 'RNA']},
               'fpy_operands': {'x': ('mx', 'ex')}}
    note = ('BOUNDED: RNE and RNA at p = 5 digits, EVERY split position 1 <= s <= p - 1 (enough precision: the constant '
            '2^s + 1 must be representable), exponents in [-6,6]; includes the split point ceil(p/2) that classic_2mul uses')

    def pre(mx, ex, s, p, rm, ctx):
        return {'mx': -pow2(p) < mx and mx < pow2(p), 'ex': -6 <= ex and ex <= 6, 's_range': 1 <= s and s <= p - 1}

    def post(mx, ex, s, p, rm, ctx, result):
        x = fpy_operand(mx, ex)
        hi, lo = fpy_val(result)
        return {
            'exact': hi + lo == x,
            'lo_small': abs(lo) * pow2(p - s) <= abs(hi) * 1 or x == 0,
            'hi_fits': hi == fpy_rne(hi, p - s),
            # radix 2: the low part even fits s - 1 digits when s >= 2 (its sign carries one digit); s digits always
            'lo_fits': lo == fpy_rne(lo, s),
            'hi_nearest': abs(hi - x) == abs(fpy_rne(x, p - s) - x),
        }

    def raises(mx, ex, s, p, rm, ctx):
        return {}


class eftx_classic_2mul(Contract):
    target = 'fpy2.libraries.eft:classic_2mul'
    params = {'ma': 'int', 'ea': 'int', 'mb': 'int', 'eb': 'int', 'p': 'int', 'rm': 'RoundingMode', 'ctx': 'FpyCtx'}
    returns = 'tuple[Fraction, Fraction]'
    properties = ['C20']
    split = ['p', 'rm']
    options = {'dialect': 'fpy', 'fpy_rnd': 'param', 'bounded': 6, 'bv_enum': True, 'bounded_try_ms': 150000, 'bounded_ms': 60000,
               'int_cases': {'p': [2, 3, 4, 5]}, 'enum_cases': {'rm': ['RNE', 'RNA']},
               'fpy_operands': {'a': ('ma', 'ea'), 'b': ('mb', 'eb')}}
    note = ('BOUNDED: RNE and RNA at p digits, ODD and even p in {2,3,4,5} (split point ceil(p/2) = 1, 2, 2, 3), '
            'all p-digit significands, exponents in [-6,6] (Dekker; unbounded exponent range, so no underflow of a partial product)')

    def pre(ma, ea, mb, eb, p, rm, ctx):
        return {'ma': -pow2(p) < ma and ma < pow2(p), 'ea': -6 <= ea and ea <= 6,
                'mb': -pow2(p) < mb and mb < pow2(p), 'eb': -6 <= eb and eb <= 6}

    def post(ma, ea, mb, eb, p, rm, ctx, result):
        a = fpy_operand(ma, ea)
        b = fpy_operand(mb, eb)
        s, t = fpy_val(result)
        return {'s_rounded_product': s == fpy_rnd(ctx, a * b), 'exact': s + t == a * b}

    def raises(ma, ea, mb, eb, p, rm, ctx):
        return {}


class eftx_classic_2fma(Contract):
    target = 'fpy2.libraries.eft:classic_2fma'
    params = {'ma': 'int', 'ea': 'int', 'mb': 'int', 'eb': 'int', 'mc': 'int', 'ec': 'int', 'p': 'int', 'rm': 'RoundingMode',
              'ctx': 'FpyCtx'}
    returns = 'tuple[Fraction, Fraction, Fraction]'
    properties = ['C20']
    split = ['p', 'rm']
    options = {'dialect': 'fpy', 'fpy_rnd': 'param', 'bounded': 6, 'bv_enum': True, 'bounded_try_ms': 150000, 'bounded_ms': 60000,
               'int_cases': {'p': [2, 3, 4, 5]}, 'enum_cases': {'rm': ['RNE', 'RNA']},
               'fpy_operands': {'a': ('ma', 'ea'), 'b': ('mb', 'eb'), 'c': ('mc', 'ec')}}
    note = ('BOUNDED: RNE and RNA at p digits, p in {2,3,4,5}, all p-digit significands of a, b, c; box of exponents: '
            'ea = eb = 0 and ec in [-6,6] (only the position of c relative to the product a * b matters for the algorithm; '
            'the box is the bound of this stand-in, the invariance under scaling is NOT used as an argument).  '
            'The docstring states no minimal precision (Boldo-Muller assume p >= 5)')

    def pre(ma, ea, mb, eb, mc, ec, p, rm, ctx):
        return {'ma': -pow2(p) < ma and ma < pow2(p), 'ea': 0 <= ea and ea <= 0,
                'mb': -pow2(p) < mb and mb < pow2(p), 'eb': 0 <= eb and eb <= 0,
                'mc': -pow2(p) < mc and mc < pow2(p), 'ec': -6 <= ec and ec <= 6}

    def post(ma, ea, mb, eb, mc, ec, p, rm, ctx, result):
        a = fpy_operand(ma, ea)
        b = fpy_operand(mb, eb)
        c = fpy_operand(mc, ec)
        r1, r2, r3 = fpy_val(result)
        return {'r1_rounded_fma': r1 == fpy_rnd(ctx, a * b + c), 'exact': r1 + r2 + r3 == a * b + c}

    def raises(ma, ea, mb, eb, mc, ec, p, rm, ctx):
        return {}
