"""
C20x: error-free transformations -- BOUNDED stand-ins (never counted as proved) for EVERY rounding mode and
for odd and even precisions.

FPy dialect (pyvc/fpydialect.py) with rnd DEFINED at p significant digits and an unbounded exponent range (no
overflow / underflow of any term) under the rounding mode `rm` (pyvc/fpyround.py; the definition is cross-checked
against fpy2's MPFloatContext by tools/c20x_rounding_native.py).  Operands range over ALL p-digit significands
and all exponents in [-E, E]:  a = ma * 2^ea, |ma| < 2^p, |ea| <= E.  Each clause is decided by exhaustive
evaluation of its bit-vector query over that box (pyvc/bvenum.py; option 'bv_enum'), with the SAT solver as fall-back.

Which modes does the documented precondition admit?

  function        docstring precondition                       modes checked here
  priest_2sum     "the rounding context is floating point"     all eight (RNE RNA RTP RTN RTZ RAZ RTO RTE)
  fast_2mul       "the rounding context is floating point"     all eight
  fast_2sum       floating point, round-nearest, |a| >= |b|    RNE, RNA
  classic_2sum    floating point, round-nearest                RNE, RNA
  classic_2mul    floating point, round-nearest                RNE, RNA
  classic_2fma    floating point, round-nearest                RNE, RNA
  veltkamp_split  (none stated; Veltkamp's theorem is for round-to-nearest)   RNE, RNA
"""
from speclib import *
from spec.c20 import *
from spec.c20x import *

class eftx_priest_2sum(Contract):
    target = 'fpy2.libraries.eft:priest_2sum'
    params = {'ma': 'int', 'ea': 'int', 'mb': 'int', 'eb': 'int', 'p': 'int', 'rm': 'RoundingMode', 'ctx': 'FpyCtx'}
    returns = 'tuple[Fraction, Fraction]'
    properties = ['C20']
    split = ['p', 'rm']
    options = {'dialect': 'fpy', 'fpy_rnd': 'param', 'bounded': 6, 'bv_enum': True, 'bounded_try_ms': 150000, 'bounded_ms': 60000,
               'int_cases': {'p': [2, 3, 4, 5]}, 'fpy_operands': {'a': ('ma', 'ea'), 'b': ('mb', 'eb')}}
    note = ('BOUNDED: every rounding mode at p digits, p in {2,3,4,5}, all p-digit significands, exponents in [-6,6]; '
            'only "floating-point context" is assumed, so the exact-sum clause is claimed under every mode; '
            'the first result is claimed faithful (one of the two p-digit neighbours of a + b)')

    def pre(ma, ea, mb, eb, p, rm, ctx):
        return {'ma': -pow2(p) < ma and ma < pow2(p), 'ea': -6 <= ea and ea <= 6,
                'mb': -pow2(p) < mb and mb < pow2(p), 'eb': -6 <= eb and eb <= 6}

    def post(ma, ea, mb, eb, p, rm, ctx, result):
        a = fpy_operand(ma, ea)
        b = fpy_operand(mb, eb)
        s, t = fpy_val(result)
        return {
            'exact': s + t == a + b,
            # faithful: s is the sum rounded down or rounded up (both equal the sum when it is representable)
            's_faithful': s == fpy_rnd_mode(a + b, p, 'RTN') or s == fpy_rnd_mode(a + b, p, 'RTP'),
        }

    def raises(ma, ea, mb, eb, p, rm, ctx):
        return {}
