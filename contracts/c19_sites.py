"""
C19 / W5 (sites): how an explicit `where` is resolved (fpy2/transform/utils.py).

`site_idx` is the number of sites the walk counted; that it equals the number of
listed sites is visitor bookkeeping, not covered here (DESIGN §5 C19, "Not covered").
"""
from speclib import *
from spec.c19 import *


class check_where_(Contract):
    target = 'fpy2.transform.utils:check_where'
    params = {'where': 'int | bool | float | StmtCursor | BlockCursor | ExprCursor | None'}
    returns = 'None'
    properties = ['C19']

    def raises(self, where):
        # a bool is not an index although it is an int
        return {'TypeError': cls_name(where) == 'bool' or cls_name(where) == 'float'}


class SiteRewriter_check_site(Contract):
    target = 'fpy2.transform.utils:SiteRewriter.check_site'
    params = {'self': 'SiteRewriter', 'what': 'str'}
    returns = 'None'
    properties = ['C19']

    def raises(self, what):
        w = self.where
        if w is None:
            # aimed at nothing: every site is taken, nothing to reject
            return {'TransformReferenceError': False, 'TransformDeclined': False}
        if isinstance(w, int):
            # an index is accepted iff it is one of the site_idx listed sites
            return {'TransformReferenceError': not (0 <= w and w < self.site_idx),
                    'TransformDeclined': False}
        declined = len(self.declined) > 0 and len(self.edits) == 0
        return {'TransformDeclined': declined,
                'TransformReferenceError': (not declined) and self._matched == 0}


class SiteRewriter__selects_at(Contract):
    target = 'fpy2.transform.utils:SiteRewriter._selects_at'
    # count keeps its default 1 (a multi-statement candidate needs a quantifier over the run)
    params = {'self': 'SiteRewriter', 'here': 'FuncBody | SubBlock | None', 'pos': 'int', 'idx': 'int'}
    returns = 'bool'
    properties = ['C19']

    def post(self, here, pos, idx, result):
        t = self._target
        if t is None:
            w = self.where
            if w is None:
                return {'all_sites': result == True}
            if isinstance(w, int):
                # exactly the candidate whose running index is `where`
                return {'the_indexed_site': result == (idx == w)}
            return {'cursor_without_target': result == False}
        if here is None:
            return {'synthesized_block': result == False}
        block, span = t
        return {'at_or_beneath_target': result == stmt_beneath(here, pos, block, span.start, span.stop)}

    def raises(self, here, pos, idx):
        return {}


class region_of_(Contract):
    target = 'fpy2.transform.cursor:region_of'
    params = {'where': 'StmtCursor | BlockCursor'}
    returns = 'tuple[FuncBody | SubBlock, range]'
    properties = ['C19']

    def post(self, where, result):
        block, span = result
        if cls_name(where) == 'StmtCursor':
            return {'block': block == where.path.parent,
                    'one_statement': span.start == where.path.index and span.stop == where.path.index + 1}
        return {'block': block == where.block_path,
                'run': span.start == where.span.start and span.stop == where.span.stop}

    def raises(self, where):
        return {}


class target_of_index(Contract):
    """an index (or nothing) names no program point: `_target` stays None, which is what makes
    `_selects_at` compare running indices"""
    target = 'fpy2.transform.utils:_target_of'
    params = {'where': 'int | None', 'func': 'FuncDef'}
    returns = 'None'
    properties = ['C19']

    def post(self, where, func, result):
        return {'no_target': result is None}

    def raises(self, where, func):
        return {}


class target_of_foreign(Contract):
    """a cursor of another program is a reference error"""
    target = 'fpy2.transform.utils:_target_of'
    params = {'where': 'StmtCursor | BlockCursor | ExprCursor', 'func': 'FuncDef'}
    returns = 'tuple[FuncBody | SubBlock, range]'
    properties = ['C19']
    inline = True

    def raises(self, where, func):
        return {'TransformReferenceError': True}


class target_of_own(Contract):
    target = 'fpy2.transform.utils:_target_of'
    params = {'where': 'StmtCursor | BlockCursor | ExprCursor', 'func': 'FuncDef'}
    aliases = {'where.func': 'func'}
    returns = 'tuple[FuncBody | SubBlock, range]'
    properties = ['C19']
    inline = True

    def post(self, where, func, result):
        block, span = result
        if cls_name(where) == 'StmtCursor':
            return {'block': block == where.path.parent,
                    'one_statement': span.start == where.path.index and span.stop == where.path.index + 1}
        return {'block': block == where.block_path,
                'run': span.start == where.span.start and span.stop == where.span.stop}

    def raises(self, where, func):
        return {'TransformReferenceError': cls_name(where) == 'ExprCursor'}
