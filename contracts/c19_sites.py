"""
C19 / W5 (sites): how an explicit `where` is resolved (fpy2/transform/utils.py).

`site_idx` is the number of sites the walk counted; that it equals the number of
listed sites is visitor bookkeeping, not covered here (DESIGN §5 C19, "Not covered").
"""
from speclib import *
from spec.c19 import *


class check_where_(Contract):
    target = 'fpy2.transform.utils:check_where'
    params = {'where': 'int | bool | float | StmtCursor | BlockCursor | ExprCursor | None'}
    returns = 'None'
    properties = ['C19']

    def raises(self, where):
        # a bool is not an index although it is an int
        return {'TypeError': cls_name(where) == 'bool' or cls_name(where) == 'float'}


class SiteRewriter_check_site(Contract):
    target = 'fpy2.transform.utils:SiteRewriter.check_site'
    params = {'self': 'SiteRewriter', 'what': 'str'}
    returns = 'None'
    properties = ['C19']

    def raises(self, what):
        w = self.where
        if w is None:
            # aimed at nothing: every site is taken, nothing to reject
            return {'TransformReferenceError': False, 'TransformDeclined': False}
        if isinstance(w, int):
            # an index is accepted iff it is one of the site_idx listed sites
            return {'TransformReferenceError': not (0 <= w and w < self.site_idx),
                    'TransformDeclined': False}
        declined = len(self.declined) > 0 and len(self.edits) == 0
        return {'TransformDeclined': declined,
                'TransformReferenceError': (not declined) and self._matched == 0}


class SiteRewriter__selects_at(Contract):
    target = 'fpy2.transform.utils:SiteRewriter._selects_at'
    # count keeps its default 1 (a multi-statement candidate needs a quantifier over the run)
    params = {'self': 'SiteRewriter', 'here': 'FuncBody | SubBlock | None', 'pos': 'int', 'idx': 'int'}
    returns = 'bool'
    properties = ['C19']

    def post(self, here, pos, idx, result):
        t = self._target
        if t is None:
            w = self.where
            if w is None:
                return {'all_sites': result == True}
            if isinstance(w, int):
                # exactly the candidate whose running index is `where`
                return {'the_indexed_site': result == (idx == w)}
            return {'cursor_without_target': result == False}
        if here is None:
            return {'synthesized_block': result == False}
        block, span = t
        return {'at_or_beneath_target': result == stmt_beneath(here, pos, block, span.start, span.stop)}

    def raises(self, here, pos, idx):
        return {}


class region_of_(Contract):
    target = 'fpy2.transform.cursor:region_of'
    params = {'where': 'StmtCursor | BlockCursor'}
    returns = 'tuple[FuncBody | SubBlock, range]'
    properties = ['C19']

    def post(self, where, result):
        block, span = result
        if cls_name(where) == 'StmtCursor':
            return {'block': block == where.path.parent,
                    'one_statement': span.start == where.path.index and span.stop == where.path.index + 1}
        return {'block': block == where.block_path,
                'run': span.start == where.span.start and span.stop == where.span.stop}

    def raises(self, where):
        return {}


class target_of_index(Contract):
    """an index (or nothing) names no program point: `_target` stays None, which is what makes
    `_selects_at` compare running indices"""
    target = 'fpy2.transform.utils:_target_of'
    params = {'where': 'int | None', 'func': 'FuncDef'}
    returns = 'None'
    properties = ['C19']

    def post(self, where, func, result):
        return {'no_target': result is None}

    def raises(self, where, func):
        return {}


class target_of_foreign(Contract):
    """a cursor of another program is a reference error"""
    target = 'fpy2.transform.utils:_target_of'
    params = {'where': 'StmtCursor | BlockCursor | ExprCursor', 'func': 'FuncDef'}
    returns = 'tuple[FuncBody | SubBlock, range]'
    properties = ['C19']
    inline = True

    def raises(self, where, func):
        return {'TransformReferenceError': True}


class target_of_own(Contract):
    target = 'fpy2.transform.utils:_target_of'
    params = {'where': 'StmtCursor | BlockCursor | ExprCursor', 'func': 'FuncDef'}
    aliases = {'where.func': 'func'}
    returns = 'tuple[FuncBody | SubBlock, range]'
    properties = ['C19']
    inline = True

    def post(self, where, func, result):
        block, span = result
        if cls_name(where) == 'StmtCursor':
            return {'block': block == where.path.parent,
                    'one_statement': span.start == where.path.index and span.stop == where.path.index + 1}
        return {'block': block == where.block_path,
                'run': span.start == where.span.start and span.stop == where.span.stop}

    def raises(self, where, func):
        return {'TransformReferenceError': cls_name(where) == 'ExprCursor'}


class SiteRewriter__record_at(Contract):
    """BOUNDED STAND-IN: the log recorded so far holds exactly 2 edits (an edit of an unrelated
    block is neutral, so this covers 0..2).  Recording a rewrite that does not collide with the
    log keeps the log pairwise disjoint: edits nested under the rewritten run are dropped."""
    target = 'fpy2.transform.utils:SiteRewriter._record_at'
    params = {'self': 'SiteRewriter', 'path': 'FuncBody | SubBlock', 'pos': 'int', 'inserted': 'int', 'removed': 'int'}
    returns = 'None'
    properties = ['C19']
    modifies = ['self.edits']
    options = {'seq_len': {'self.edits': 2}, 'bounded': 8}
    note = 'bounded stand-in: the log holds 2 edits when _record_at is called'

    def pre(self, path, pos, inserted, removed):
        e0, e1 = self.edits[0], self.edits[1]
        a0, a1 = pos, pos + removed
        return {
            'log_disjoint': not overlaps_spec(e0, e1) and not overlaps_spec(e1, e0),
            # the visitor records a statement after everything inside it, and never twice:
            # the new rewrite is not inside an old one and does not share statements with one
            'new_not_under_old': not block_beneath(path, e0.block_path, e0.index, e0.index + e0.removed)
                                 and not block_beneath(path, e1.block_path, e1.index, e1.index + e1.removed),
            'new_not_colliding': not (e0.block_path == path and (in_iv(pos, e0.index, e0.index + e0.removed) or in_iv(e0.index, a0, a1)))
                                 and not (e1.block_path == path and (in_iv(pos, e1.index, e1.index + e1.removed) or in_iv(e1.index, a0, a1))),
        }

    def post(self, path, pos, inserted, removed, old):
        L = self.edits
        n = len(L)
        new = L[n - 1]
        e0, e1 = old.self.edits[0], old.self.edits[1]
        k0 = not block_beneath(e0.block_path, path, pos, pos + removed)
        k1 = not block_beneath(e1.block_path, path, pos, pos + removed)
        return {
            'appended': new.block_path == path and new.index == pos and new.removed == removed and new.inserted == inserted,
            'still_disjoint': pairwise_disjoint(L),
            # exactly the old edits not nested under the rewritten run are kept
            'kept_count': n - 1 == ite(k0, 1, 0) + ite(k1, 1, 0),
            'kept_first': implies(k0, same_edit(L[0], e0)),
            'kept_second': implies(k1, same_edit(L[n - 2], e1)) if n >= 2 else not k1,
        }

    def raises(self, path, pos, inserted, removed):
        return {'ValueError': pos < 0 or removed < 0 or inserted < 0}
