from speclib import *
from spec.real import *
from spec.floats import *
from spec.ctx import *
from fpy2.number.round import RoundingMode


class MPFloatFormat_representable_in(Contract):
    target = 'fpy2.number.context.mp_float:MPFloatFormat.representable_in'
    params = {'self': 'MPFloatFormat', 'x': 'RealFloat | Float'}
    returns = 'bool'
    properties = ['C01', 'C16']

    def pre(self, x):
        return {'pmax': self.pmax >= 1}

    def post(self, x, result):
        # membership in F(pmax): NaN / inf by the enable flags; zero; else c*2^exp with the
        # odd part of c (c without trailing zeros) of at most pmax digits, i.e. c = m * 2^t, bl(m) <= pmax
        xr = x._real if cls_name(x) == 'Float' else x
        nan = cls_name(x) == 'Float' and x._isnan
        inf = cls_name(x) == 'Float' and x._isinf and not x._isnan
        c = xr._c
        over = bl(c) - self.pmax
        return {
            'nan': implies(nan, result == self.enable_nan),
            'inf': implies(inf, result == self.enable_inf),
            'zero': implies(not nan and not inf and c == 0, result),
            'fits': implies(not nan and not inf and c != 0 and over <= 0, result),
            'excess_zero': (result == (fmod(c, pow2(over)) == 0)) if (not nan and not inf and c != 0 and over > 0) else True,
        }

    def raises(self, x):
        return {}


class MPFloatContext__round_at(Contract):
    target = 'fpy2.number.context.mp_float:MPFloatContext._round_at'
    params = {'self': 'MPFloatContext', 'x': 'RealFloat | Float', 'n': 'int | None', 'exact': 'bool'}
    returns = 'Float'
    properties = ['C01']
    binds = {'result._ctx': 'self'}

    def pre(self, x, n, exact):
        return {
            'pmax': self.pmax >= 1,
            'deterministic': self.num_randbits is not None and self.num_randbits == 0,
        }

    def post(self, x, n, exact, result):
        return mpf_post(self, x, n, exact, result)

    def raises(self, x, n, exact):
        return mpf_raises(self, x, n, exact)


class MPFloatContext_round(Contract):
    target = 'fpy2.number.context.mp_float:MPFloatContext.round'
    params = {'self': 'MPFloatContext', 'x': 'RealFloat | Float', 'exact': 'bool'}
    returns = 'Float'
    properties = ['C01']
    binds = {'result._ctx': 'self'}

    def pre(self, x, exact):
        return {
            'pmax': self.pmax >= 1,
            'deterministic': self.num_randbits is not None and self.num_randbits == 0,
        }

    def post(self, x, exact, result):
        return mpf_post(self, x, None, exact, result)

    def raises(self, x, exact):
        return mpf_raises(self, x, None, exact)


class MPFloatContext_round_at(Contract):
    target = 'fpy2.number.context.mp_float:MPFloatContext.round_at'
    params = {'self': 'MPFloatContext', 'x': 'RealFloat | Float', 'n': 'int', 'exact': 'bool'}
    returns = 'Float'
    properties = ['C01']
    binds = {'result._ctx': 'self'}

    def pre(self, x, n, exact):
        return {
            'pmax': self.pmax >= 1,
            'deterministic': self.num_randbits is not None and self.num_randbits == 0,
        }

    def post(self, x, n, exact, result):
        return mpf_post(self, x, n, exact, result)

    def raises(self, x, n, exact):
        return mpf_raises(self, x, n, exact)


class MPFloatContext_round_integer(Contract):
    target = 'fpy2.number.context.context:Context.round_integer'
    params = {'self': 'MPFloatContext', 'x': 'RealFloat | Float'}
    returns = 'Float'
    properties = ['C01']
    inline = True            # one contract per receiver class; never used modularly
    binds = {'result._ctx': 'self'}

    def pre(self, x):
        return {
            'deterministic': self.num_randbits is not None and self.num_randbits == 0,
        }

    def post(self, x, result):
        return mpf_post(self, x, -1, False, result)

    def raises(self, x):
        return mpf_raises(self, x, -1, False)


class MPFloatContext___init__(Contract):
    target = 'fpy2.number.context.mp_float:MPFloatContext.__init__'
    params = {'self': 'MPFloatContext', 'pmax': 'int', 'rm': 'RoundingMode', 'num_randbits': 'int | None',
              'rng': 'RNG | None', 'enable_nan': 'bool', 'enable_inf': 'bool',
              'nan_value': 'Float | None', 'inf_value': 'Float | None'}
    returns = 'None'
    properties = ['C01']
    binds = {'self.nan_value': 'nan_value', 'self.inf_value': 'inf_value', 'self.rng': 'rng'}

    def post(self, pmax, rm, num_randbits, rng, enable_nan, enable_inf, nan_value, inf_value, result):
        return {
            'inv_pmax': self.pmax >= 1,
            'pmax': self.pmax == pmax,
            'rm': self.rm.name == rm.name,
            'num_randbits': (self.num_randbits is None) if num_randbits is None
                            else (self.num_randbits is not None and self.num_randbits == num_randbits),
            'enable_nan': self.enable_nan == enable_nan,
            'enable_inf': self.enable_inf == enable_inf,
            'fmt': self._fmt.pmax == pmax and self._fmt.enable_nan == enable_nan and self._fmt.enable_inf == enable_inf,
            # substitutes are members of the format
            'nan_value_member': mpf_member(pmax, enable_nan, enable_inf, nan_value)
                                if (nan_value is not None and not enable_nan) else True,
            'inf_value_member': mpf_member(pmax, enable_nan, enable_inf, inf_value)
                                if (inf_value is not None and not enable_inf) else True,
        }

    def raises(self, pmax, rm, num_randbits, rng, enable_nan, enable_inf, nan_value, inf_value):
        bad_nan = (not enable_nan and not mpf_member(pmax, enable_nan, enable_inf, nan_value)) if nan_value is not None else False
        bad_inf = (not enable_inf and not mpf_member(pmax, enable_nan, enable_inf, inf_value)) if inf_value is not None else False
        return {
            'TypeError': pmax < 1,
            'ValueError': pmax >= 1 and (bad_nan or bad_inf),
        }
