from speclib import *
from spec.real import *
from spec.floats import *
from fpy2.number.round import RoundingMode


class MPFloatFormat_representable_in(Contract):
    target = 'fpy2.number.context.mp_float:MPFloatFormat.representable_in'
    params = {'self': 'MPFloatFormat', 'x': 'RealFloat | Float'}
    returns = 'bool'
    properties = ['C01', 'C16']

    def pre(self, x):
        return {'pmax': self.pmax >= 1}

    def post(self, x, result):
        # membership in F(pmax): NaN / inf by the enable flags; zero; else c*2^exp with the
        # odd part of c (c without trailing zeros) of at most pmax digits, i.e. c = m * 2^t, bl(m) <= pmax
        xr = x._real if cls_name(x) == 'Float' else x
        nan = cls_name(x) == 'Float' and x._isnan
        inf = cls_name(x) == 'Float' and x._isinf and not x._isnan
        c = xr._c
        over = bl(c) - self.pmax
        return {
            'nan': implies(nan, result == self.enable_nan),
            'inf': implies(inf, result == self.enable_inf),
            'zero': implies(not nan and not inf and c == 0, result),
            'fits': implies(not nan and not inf and c != 0 and over <= 0, result),
            'excess_zero': (result == (fmod(c, pow2(over)) == 0)) if (not nan and not inf and c != 0 and over > 0) else True,
        }

    def raises(self, x):
        return {}


class MPFloatContext__round_at(Contract):
    target = 'fpy2.number.context.mp_float:MPFloatContext._round_at'
    params = {'self': 'MPFloatContext', 'x': 'RealFloat | Float', 'n': 'int | None', 'exact': 'bool'}
    returns = 'Float'
    properties = ['C01']

    def pre(self, x, n, exact):
        return {
            'pmax': self.pmax >= 1,
            'deterministic': self.num_randbits is not None and self.num_randbits == 0,
        }

    def post(self, x, n, exact, result):
        r = result
        isf = cls_name(x) == 'Float'
        nan = isf and x._isnan
        inf = isf and x._isinf and not x._isnan
        xr = x._real if isf else x
        fin = not nan and not inf
        nz = fin and xr._c != 0
        ns = round_nstar(xr, self.pmax, n)
        R = rnd_at(xr, self.pmax, ns, self.rm)
        return {
            'ctx': same_obj(r._ctx, self),
            # K5 special values
            'nan_enabled': implies(nan and self.enable_nan, r._isnan and not r._isinf),
            'nan_subst': (same_real(r._real, self.nan_value._real) and r._isnan == self.nan_value._isnan
                          and r._isinf == self.nan_value._isinf) if (nan and not self.enable_nan and self.nan_value is not None) else True,
            'inf_enabled': implies(inf and self.enable_inf, r._isinf and not r._isnan and r._real._s == x._real._s),
            'inf_subst': (r._real._s == x._real._s and r._real._exp == self.inf_value._real._exp
                          and r._real._c == self.inf_value._real._c and r._isnan == self.inf_value._isnan
                          and r._isinf == self.inf_value._isinf) if (inf and not self.enable_inf and self.inf_value is not None) else True,
            # K2 zero keeps its sign, no flags
            'zero': implies(fin and xr._c == 0, fl_finite(r) and r._real._c == 0 and r._real._s == xr._s and flags_clear(r._real)),
            # K2/K3 finite nonzero: the correctly rounded value with truthful inexact flag
            'finite': implies(nz, fl_finite(r)),
            'sign': implies(nz, r._real._s == xr._s),
            'exp': implies(nz, r._real._exp == R[0]),
            'c': implies(nz, r._real._c == R[1]),
            'inexact': implies(nz, r._real._flags.inexact == R[2]),
            'no_overflow': implies(nz, not r._real._flags.overflow),
            # K1 member of the format
            'member_p': implies(nz, bl(r._real._c) <= self.pmax),
            'member_n': implies(nz, r._real._exp > n) if n is not None else True,
        }

    def raises(self, x, n, exact):
        isf = cls_name(x) == 'Float'
        nan = isf and x._isnan
        inf = isf and x._isinf and not x._isnan
        xr = x._real if isf else x
        fin = not nan and not inf
        return {
            'ValueError': (nan and not self.enable_nan and self.nan_value is None)
                          or (inf and not self.enable_inf and self.inf_value is None)
                          or (fin and xr._c != 0 and exact
                              and rnd_at(xr, self.pmax, round_nstar(xr, self.pmax, n), self.rm)[2]),
        }
