"""
C20 part X1: the Python primitives of fpy2/libraries/core.py (split, modf, frexp)
under an ARBITRARY rounding context.

`Context.round` / `Context.normalize` are abstract in fpy2; the two trusted
contracts below state what C01 (rounding) and C16 (normalisation) prove for each
concrete context family, in terms of abstract predicates (spec/c20.py):
an exact rounding returns a value numerically equal to its operand or raises.
"""
from speclib import *
from spec.real import *
from spec.floats import *
from spec.c20 import *
from spec.c20x import *


class Context_round(Contract):
    target = 'fpy2.number.context.context:Context.round'
    params = {'self': 'Context', 'x': 'RealFloat | Float | int', 'exact': 'bool'}
    returns = 'Float'
    properties = ['C20']
    trusted = True
    note = ('abstract Context.round (C01 proves it per concrete context family): with exact=True a finite operand is '
            'returned numerically unchanged (sign kept; the sign of -0 only if the context has -0) or ValueError is raised; '
            'NaN/inf are kept by contexts that have them; raising is the abstract predicate round_ok(ctx, operand, exact); '
            'an inexact rounding (exact=False) returns an unconstrained Float')

    def post(self, x, exact, result):
        r = result
        nan = op_isnan(x)
        inf = op_isinf(x)
        fin = not nan and not inf
        return {
            'nan': implies(nan and ctx_keeps(self, 0), r._isnan and not r._isinf),
            'inf': implies(inf and ctx_keeps(self, 1), r._isinf and not r._isnan and r._real._s == op_s(x)),
            'exact_finite': implies(fin and exact, fl_finite(r)),
            'exact_zero': implies(fin and exact and op_c(x) == 0, r._real._c == 0),
            'exact_sign': implies(fin and exact and (op_c(x) != 0 or not op_s(x) or ctx_keeps(self, 2)),
                                  r._real._s == op_s(x)),
            # every family rounds through RealFloat.round (C01 core: exp == R[0], c == R[1] with R = rnd_at(...)):
            # an exact result keeps the digits and only drops trailing zeros
            'exact_enc': (r._real._exp >= op_exp(x) and op_c(x) == r._real._c * pow2(r._real._exp - op_exp(x)))
                         if (fin and exact and op_c(x) != 0) else True,
        }

    def raises(self, x, exact):
        return {'ValueError': not round_ok(self, x, exact)}


class Context_normalize(Contract):
    target = 'fpy2.number.context.context:Context.normalize'
    params = {'self': 'Context', 'x': 'Float'}
    returns = 'Float'
    properties = ['C20']
    trusted = True
    note = ('abstract Context.normalize (C16 proves it per format): the canonical form of a finite Float under its own '
            'context is numerically equal to it, keeps the sign, belongs to that context and does not raise '
            '(assumes a Float is representable under the context recorded in it)')

    def pre(self, x):
        return {'own_ctx': same_obj(x._ctx, self), 'finite': fl_finite(x)}

    def post(self, x, result):
        r = result
        return {
            'finite': fl_finite(r),
            'value': sc_eq(r._real._s, r._real._exp, r._real._c, x._real._s, x._real._exp, x._real._c),
            'sign': r._real._s == x._real._s,
            'c': r._real._c == norm_c(self, x._real._s, x._real._exp, x._real._c),
        }

    def raises(self, x):
        return {}


# ---------------------------------------------------------------------------

class core_split(Contract):
    target = 'fpy2.libraries.core:split'
    params = {'x': 'Float', 'n': 'Float', 'ctx': 'Context'}
    returns = 'tuple[Float, Float]'
    properties = ['C20']
    # most obligations follow from RealFloat.split's contract by congruence alone: try without pow2/bl axiom instances first
    options = {'noax_first_ms': 4000, 'theory_light': True}
    note = 'for every context (abstract Context.round); hi + lo == x exactly whenever split returns'

    def post(x, n, ctx, result):
        hi, lo = result
        xr = x._real
        out = {
            # specials per the docstring (for contexts that have NaN / infinities)
            'nan': implies(x._isnan and ctx_keeps(ctx, 0), hi._isnan and lo._isnan),
            'inf': implies(x._isinf and not x._isnan and ctx_keeps(ctx, 1),
                           hi._isinf and lo._isinf and hi._real._s == xr._s and lo._real._s == xr._s),
        }
        if fl_finite(x):
            nv = fl_int_value(n)        # == rf_int_value(n._real); the term of Float.__int__'s closed form
            he, hc, le, lc = split_parts(xr._exp, xr._c, nv)
            # proof steps (contracts/c20x_lemmas.py): an exact rounding re-encodes its operand
            if lc != 0:
                apply_lemma('C20x_reenc_e', ea=le, ca=lc, er=lo._real._exp, cr=lo._real._c)
            if xr._c != 0 and nv >= xr._exp and nv < e_of(xr):
                apply_lemma('C20x_reenc_sum', h=hi._real, l=lo._real, x=xr, n=nv)
            out.update({
                'finite': fl_finite(hi) and fl_finite(lo),
                # the two parts are the digits above n / at or below n of x
                'hi_value': sc_eq(hi._real._s, hi._real._exp, hi._real._c, xr._s, he, hc),
                'lo_value': sc_eq(lo._real._s, lo._real._exp, lo._real._c, xr._s, le, lc),
                'hi_above': hi._real._c == 0 or hi._real._exp > nv,
                'lo_below': lo._real._c == 0 or e_of(lo._real) <= nv,
                # exact recombination
                'sum': sum2_eq(hi._real, lo._real, xr),
            })
        return out

    def raises(x, n, ctx):
        xr = x._real
        if not fl_is_integer(n):
            return {'ValueError': True}
        if x._isnan:
            return {'ValueError': not round_ok_sc(ctx, True, False, False, 0, 0, True)}
        if x._isinf:
            return {'ValueError': not round_ok_sc(ctx, False, True, xr._s, 0, 0, True)}
        nv = fl_int_value(n)        # == rf_int_value(n._real); the term of Float.__int__'s closed form
        he, hc, le, lc = split_parts(xr._exp, xr._c, nv)
        return {'ValueError': not (round_ok_sc(ctx, False, False, xr._s, he, hc, True)
                                   and round_ok_sc(ctx, False, False, xr._s, le, lc, True))}


class core_modf(Contract):
    target = 'fpy2.libraries.core:modf'
    params = {'x': 'Float', 'ctx': 'Context'}
    returns = 'tuple[Float, Float]'
    properties = ['C20']
    options = {'noax_first_ms': 4000, 'theory_light': True}
    note = 'for every context (abstract Context.round); integral + fractional == x, C modf special cases'

    def post(x, ctx, result):
        i, f = result
        xr = x._real
        keep_sign = not xr._s or ctx_keeps(ctx, 2)
        out = {'nan': implies(x._isnan and ctx_keeps(ctx, 0), i._isnan and f._isnan)}
        if x._isnan:
            return out
        if x._isinf:
            # +-inf -> (+-0, +-inf)
            out.update({
                'inf_i': fl_finite(i) and i._real._c == 0,
                'inf_i_sign': implies(keep_sign, i._real._s == xr._s),
                'inf_f': implies(ctx_keeps(ctx, 1), f._isinf and f._real._s == xr._s),
            })
            return out
        if xr._c == 0:
            # +-0 -> (+-0, +-0)
            out.update({
                'zero': fl_finite(i) and fl_finite(f) and i._real._c == 0 and f._real._c == 0,
                'zero_sign': implies(keep_sign, i._real._s == xr._s and f._real._s == xr._s),
            })
            return out
        # finite nonzero: exact recombination, integral part is an integer, |fractional| < 1, signs of x
        # proof steps (contracts/c20x_lemmas.py): an exact rounding re-encodes its operand
        he, hc, le, lc = split_parts(xr._exp, xr._c, -1)
        if hc != 0:
            apply_lemma('C20x_reenc_e', ea=he, ca=hc, er=i._real._exp, cr=i._real._c)
        if lc != 0:
            apply_lemma('C20x_reenc_e', ea=le, ca=lc, er=f._real._exp, cr=f._real._c)
        if -1 >= xr._exp and -1 < e_of(xr):
            apply_lemma('C20x_reenc_sum', h=i._real, l=f._real, x=xr, n=-1)
        out.update({
            'finite': fl_finite(i) and fl_finite(f),
            'sum': sum2_eq(i._real, f._real, xr),
            'integral': rf_is_integer(i._real),
            'frac_lt_1': f._real._c == 0 or e_of(f._real) < 0,
            'i_sign': implies(i._real._c != 0 or keep_sign, i._real._s == xr._s),
            'f_sign': implies(f._real._c != 0 or keep_sign, f._real._s == xr._s),
        })
        return out

    def raises(x, ctx):
        xr = x._real
        if x._isnan:
            return {'ValueError': not round_ok(ctx, x, True)}
        if x._isinf:
            return {'ValueError': not (round_ok_sc(ctx, False, False, xr._s, 0, 0, True)
                                       and round_ok_sc(ctx, False, True, xr._s, 0, 0, True))}
        if xr._c == 0:
            return {'ValueError': not round_ok_sc(ctx, False, False, xr._s, 0, 0, True)}
        he, hc, le, lc = split_parts(xr._exp, xr._c, -1)
        return {'ValueError': not (round_ok_sc(ctx, False, False, xr._s, he, hc, True)
                                   and round_ok_sc(ctx, False, False, xr._s, le, lc, True))}


class core_frexp(Contract):
    target = 'fpy2.libraries.core:frexp'
    params = {'x': 'Float', 'ctx': 'Context'}
    # floats.py binds the name `Context` to None at run time (import under TYPE_CHECKING): give the field its real type
    overrides = {'x._ctx': 'Context | None'}
    returns = 'tuple[Float, Float]'
    properties = ['C20']
    options = {'noax_first_ms': 4000, 'light_axioms': True}
    note = ('for every context (abstract Context.round / Context.normalize); m * 2^e == x with 1 <= |m| < 2; '
            'the docstring promises an exact computation, so an exponent the context cannot hold must raise')

    def post(x, ctx, result):
        m, e = result
        xr = x._real
        keep_sign = not xr._s or ctx_keeps(ctx, 2)
        out = {'nan': implies(x._isnan and ctx_keeps(ctx, 0), m._isnan and e._isnan)}
        if x._isnan:
            return out
        if x._isinf:
            out.update({
                'inf_m': implies(ctx_keeps(ctx, 1), m._isinf and m._real._s == xr._s),
                'inf_e': implies(ctx_keeps(ctx, 0), e._isnan),
            })
            return out
        if xr._c == 0:
            out.update({
                'zero': fl_finite(m) and fl_finite(e) and m._real._c == 0 and e._real._c == 0,
                'zero_sign': implies(keep_sign, m._real._s == xr._s),
            })
            return out
        out.update({
            'finite_m': fl_finite(m),
            'm_sign': m._real._s == xr._s,
            'm_range': m._real._c != 0 and e_of(m._real) == 0,          # 1 <= |m| < 2
            'finite_e': fl_finite(e),
            'e_integer': rf_is_integer(e._real),
        })
        ev = rf_int_value(e._real)
        out.update({
            'e_value': ev == e_of(xr),
            # m * 2^e == x  (the exponent of m shifted by the integer e)
            'recombine': sc_eq(m._real._s, m._real._exp + ev, m._real._c, xr._s, xr._exp, xr._c),
        })
        return out

    def raises(x, ctx):
        xr = x._real
        if x._isnan:
            return {'ValueError': not round_ok_sc(ctx, True, False, False, 0, 0, True)}
        if x._isinf:
            return {'ValueError': not (round_ok_sc(ctx, False, True, xr._s, 0, 0, True)
                                       and round_ok_sc(ctx, True, False, False, 0, 0, True))}
        if xr._c == 0:
            return {'ValueError': not (round_ok_sc(ctx, False, False, xr._s, 0, 0, True)
                                       and round_ok_sc(ctx, False, False, False, 0, 0, True))}
        ex = e_of(xr)
        eabs = ite(ex < 0, -ex, ex)
        # the repaired frexp no longer normalises x under its own context: the mantissa keeps the significand of x
        cn = xr._c
        return {'ValueError': not (round_ok_sc(ctx, False, False, xr._s, 1 - bl(cn), cn, True)
                                   and round_ok_sc(ctx, False, False, ex < 0, 0, eabs, True))}
