"""
C19 / W5 (edits): Edit.__post_init__, Edit.span, _overlaps, and the nesting test
`beneath` of fpy2/transform/path.py that `_overlaps` / `_selects_at` / `_record_at` use.
"""
from speclib import *
from spec.c19 import *


class Edit___post_init__(Contract):
    target = 'fpy2.transform.cursor:Edit.__post_init__'
    params = {'self': 'Edit'}      # verified WITHOUT the class invariant of Edit: this hook establishes it
    returns = 'None'
    properties = ['C19']

    def post(self, result):
        return {'well_formed': self.index >= 0 and self.removed >= 0 and self.inserted >= 0}

    def raises(self):
        return {'ValueError': self.index < 0 or self.removed < 0 or self.inserted < 0}


class Edit_span(Contract):
    target = 'fpy2.transform.cursor:Edit.span'
    params = {'self': 'Edit'}
    returns = 'range'
    properties = ['C19']

    def post(self, result):
        return {
            'start': result.start == self.index,
            'stop': result.stop == self.index + self.removed,
            'step': result.step == 1,
            'len': len(result) == self.removed,
        }

    def raises(self):
        return {}


class beneath_(Contract):
    """`beneath(path, block, span)`: the `while True` walk up the path, by the invariant
    'the answer for the current p is the answer for the original path'.
    ExprPath arguments (one more `.stmt()` hop) are not covered; ranges have step 1."""
    target = 'fpy2.transform.path:beneath'
    params = {'path': 'FuncBody | SubBlock | StmtPath', 'block': 'FuncBody | SubBlock', 'span': 'range'}
    returns = 'bool'
    properties = ['C19']
    loop_types = {0: {'p': 'FuncBody | SubBlock | StmtPath'}}

    def inv0(self, path, block, span, p, _i):
        return {'same_answer': path_beneath(p, block, span.start, span.stop)
                               == path_beneath(path, block, span.start, span.stop)}

    def post(self, path, block, span, result):
        return {'beneath': result == path_beneath(path, block, span.start, span.stop)}

    def raises(self, path, block, span):
        return {}


class overlaps(Contract):
    target = 'fpy2.transform.cursor:_overlaps'
    params = {'a': 'Edit', 'b': 'Edit'}
    returns = 'bool'
    properties = ['C19']

    def post(self, a, b, result):
        same = a.block_path == b.block_path
        a0, a1 = a.index, a.index + a.removed
        b0, b1 = b.index, b.index + b.removed
        return {
            # soundness: edits whose consumed intervals have a common statement are reported
            'same_block_sound': implies(same and iv_intersect(a0, a1, b0, b1), result),
            # exact for edits that consume something: the definition of interval overlap
            'same_block_exact': implies(same and a.removed > 0 and b.removed > 0,
                                        result == iv_intersect(a0, a1, b0, b1)),
            # an insertion (removed == 0) counts as inside a run iff its index is one of the
            # consumed indices; two insertions never overlap
            'same_block_insertion': implies(same and b.removed == 0,
                                            result == (a.removed > 0 and in_iv(b0, a0, a1))),
            # the test is symmetric within one block
            'same_block_formula': implies(same, result == (in_iv(b0, a0, a1) or in_iv(a0, b0, b1))),
            # other block: b sits in a block below one of the statements a replaced
            'other_block': implies(not same, result == block_beneath(b.block_path, a.block_path, a0, a1)),
        }

    def raises(self, a, b):
        return {}
