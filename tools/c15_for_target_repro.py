import fpy2 as fp

@fp.fpy
def f(xs: list[fp.Real]) -> fp.Real:
    for x in xs:
        y = x
    return x

print('accepted')
try:
    print(f([]))
except Exception as e:
    print('RAISED', type(e).__name__, e)
try:
    print(f([1.0, 2.0]))
except Exception as e:
    print('RAISED', type(e).__name__, e)
