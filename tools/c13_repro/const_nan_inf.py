"""ConstNan / ConstInf under a context that cannot hold the value.

value_class.py:480-488 (_visit_nullaryop) sends ConstNan/ConstInf through
_rounded(), i.e. reports representable_classes(ctx) under a non-REAL context.
But the interpreter's ops.nan()/ops.inf() (fpy2/ops.py:1143-1159) build
Float(isnan=True, ctx=ctx) / Float(isinf=True, ctx=ctx) WITHOUT rounding, so no
refusal and no substitution ever happens."""
import fpy2 as fp
from fpy2.analysis import ValueClassInfer, class_of

@fp.fpy
def nan_in_sint32() -> fp.Real:
    with fp.SINT32:
        x = fp.nan()
    return x

@fp.fpy
def inf_in_sint32() -> fp.Real:
    with fp.SINT32:
        x = fp.inf()
    return x

@fp.fpy
def inf_in_e4m3() -> fp.Real:          # MX_E4M3 has a NaN but no infinity
    with fp.MX_E4M3:
        x = fp.inf()
    return x

@fp.fpy
def propagated() -> fp.Real:           # the wrong class flows on through REAL arithmetic
    with fp.SINT32:
        x = fp.nan()
    with fp.REAL:
        y = x * 2 + 1
    return y

for f, args in ((nan_in_sint32, ()), (inf_in_sint32, ()), (inf_in_e4m3, ()), (propagated, ())):
    info = ValueClassInfer.analyze(f.ast)
    ret = f.ast.body.stmts[-1].expr
    reported = info.classify(ret)
    by_def = {str(d.name): c for d, c in info.by_def.items()}
    actual = f(*args)
    cls = class_of(actual)
    print(f'{f.name}: reported(by_expr of returned var)={reported}  by_def={by_def}  '
          f'actual={actual!s} class={cls}  ->  {"SOUND" if cls & reported else "UNSOUND"}')
