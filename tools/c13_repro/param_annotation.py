"""Parameter entry class taken from the annotated context, which nothing enforces.

value_class.py:664-668 (_arg_class) + :633-637 give a parameter whose type is
RealType(ctx) the class representable_classes(ctx).  Such annotations are what
Monomorphize produces (RealTypeAnn(ctx)).  The interpreter never rounds or
checks an argument against its annotation (fpy2/interpret/byte.py:1127-1147
drops annotations; BytecodeInterpreter.eval :1225-1228 only does to_value), so
every operation has a result and yet the parameter holds a NaN/Inf."""
import fpy2 as fp
from fpy2.analysis import ValueClassInfer, class_of
from fpy2.transform import Monomorphize
from fpy2.types import RealType

@fp.fpy
def ident(x: fp.Real) -> fp.Real:
    return x

for ctx in (fp.SINT32, fp.MX_E4M3):
    mono = fp.Function(Monomorphize.apply(ident.ast, fp.REAL, [RealType(ctx)]))
    info = ValueClassInfer.analyze(mono.ast)
    reported = info.classify(mono.ast.body.stmts[-1].expr)
    print(f'arg pinned to {type(ctx).__name__}: reported class of x = {reported}',
          ' by_def:', {str(d.name): c for d, c in info.by_def.items()})
    for v in (float('nan'), float('inf'), 1.0):
        actual = mono(v)
        cls = class_of(actual)
        print(f'  f({v}) = {actual!s} class={cls} -> {"SOUND" if cls & reported else "UNSOUND"}')
