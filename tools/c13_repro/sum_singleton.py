"""sum() of a one-element list passes the element through unrounded.

value_class.py:499-500: `Sum` has no case of its own in _visit_unaryop, so it
falls to `case _: return self._rounded(e, _TOP)` = representable_classes(ctx).
The interpreter's _eval_sum (fpy2/interpret/byte.py:293-307) returns val[0]
untouched for a singleton (and only rounds via ops.add from the 2nd element on),
so the result is NOT a value the context represents -- the very hazard the
_rounded docstring describes for min()/fst()."""
import fpy2 as fp
from fpy2.analysis import ValueClassInfer, class_of

@fp.fpy
def sum1(x: fp.Real) -> fp.Real:
    with fp.SINT32:
        y = sum([x])
    return y

info = ValueClassInfer.analyze(sum1.ast)
reported = info.classify(sum1.ast.body.stmts[-1].expr)
print('reported class of y:', reported,
      ' by_def:', {str(d.name): c for d, c in info.by_def.items()})
for v in (float('nan'), float('inf'), float('-inf'), 1.0, 0.0):
    actual = sum1(v)
    cls = class_of(actual)
    print(f'  sum1({v}) = {actual!s}  class={cls}  ->  {"SOUND" if cls & reported else "UNSOUND"}')
