import subprocess, shutil, os, sys
SC='fpy2/analysis/syntax_check.py'; RE='fpy2/analysis/reachability.py'; VI='fpy2/ast/visitor.py'; DE='fpy2/decorator.py'
ROOT=os.path.dirname(os.path.dirname(os.path.abspath(__file__)))
MUT='/tmp/mut_w3c15'
M = [
 ('X1 unaryop skips its child', SC, "            self._check_op_nameable(e)\n        self._visit_expr(e.arg, ctx)", "            self._check_op_nameable(e)\n        pass", 'SC__visit_unaryop'),
 ('X2 binaryop visits first twice', SC, "        self._visit_expr(e.first, ctx)\n        self._visit_expr(e.second, ctx)\n\n    def _visit_ternaryop", "        self._visit_expr(e.first, ctx)\n        self._visit_expr(e.first, ctx)\n\n    def _visit_ternaryop", 'SC__visit_binaryop'),
 ('X3 binaryop writes ctx.within_call', SC, "        self._visit_expr(e.first, ctx)\n        self._visit_expr(e.second, ctx)\n\n    def _visit_ternaryop", "        self._visit_expr(e.first, ctx)\n        ctx.within_call = True\n        self._visit_expr(e.second, ctx)\n\n    def _visit_ternaryop", 'SC__visit_binaryop'),
 ('X4 ternaryop skips third', SC, "        self._visit_expr(e.second, ctx)\n        self._visit_expr(e.third, ctx)", "        self._visit_expr(e.second, ctx)\n        self._visit_expr(e.second, ctx)", 'SC__visit_ternaryop'),
 ('X5 naryop skips args', SC, "        for c in e.args:\n            self._visit_expr(c, ctx)\n\n    def _visit_compare", "        for c in e.args:\n            pass\n\n    def _visit_compare", 'SC__visit_naryop'),
 ('X6 compare skips its operands', SC, "    def _visit_compare(self, e: Compare, ctx: _Ctx):\n        for c in e.args:\n            self._visit_expr(c, ctx)", "    def _visit_compare(self, e: Compare, ctx: _Ctx):\n        for c in e.args:\n            pass", 'SC__visit_compare'),
 ('X7 call skips kwargs', SC, "        for _, arg in e.kwargs:\n            self._visit_expr(arg, ctx)", "        for _, arg in e.kwargs:\n            pass", 'SC__visit_call'),
 ('X8 call: function name never checked', SC, "self._mark_use(e.func.name, ctx.env, ignore_missing=self.ignore_unknown)", "self._mark_use(e.func.name, ctx.env, ignore_missing=True)", 'SC__visit_call'),
 ('X9 call: attribute visited in the caller ctx, flag leaked', SC, "                self._visit_attribute(e.func, _Ctx(ctx.env, True))", "                ctx.within_call = True\n                self._visit_attribute(e.func, ctx)", 'SC__visit_call'),
 ('X10 tuple_expr skips elements', SC, "    def _visit_tuple_expr(self, e: TupleExpr, ctx: _Ctx):\n        for c in e.elts:\n            self._visit_expr(c, ctx)", "    def _visit_tuple_expr(self, e: TupleExpr, ctx: _Ctx):\n        for c in e.elts:\n            pass", 'SC__visit_tuple_expr'),
 ('X11 list_expr skips elements', SC, "    def _visit_list_expr(self, e: ListExpr, ctx: _Ctx):\n        for c in e.elts:\n            self._visit_expr(c, ctx)", "    def _visit_list_expr(self, e: ListExpr, ctx: _Ctx):\n        for c in e.elts:\n            pass", 'SC__visit_list_expr'),
 ('X12 list_comp: iterable sees its own target', SC, "            self._visit_expr(iterable, ctx)\n            env = self._visit_binding(target, ctx.env)\n            ctx = _Ctx(env, ctx.within_call)", "            env = self._visit_binding(target, ctx.env)\n            ctx = _Ctx(env, ctx.within_call)\n            self._visit_expr(iterable, ctx)", 'SC__visit_list_comp'),
 ('X13 list_comp: targets leak into the enclosing env', SC, "            env = self._visit_binding(target, ctx.env)\n            ctx = _Ctx(env, ctx.within_call)", "            env = self._visit_binding(target, ctx.env)\n            ctx.env = env", 'SC__visit_list_comp'),
 ('X14 list_comp: element not checked', SC, "        self._visit_expr(e.elt, _Ctx(env, ctx.within_call))", "        pass", 'SC__visit_list_comp'),
 ('X15 list_ref skips index', SC, "        self._visit_expr(e.value, ctx)\n        self._visit_expr(e.index, ctx)", "        self._visit_expr(e.value, ctx)\n        self._visit_expr(e.value, ctx)", 'SC__visit_list_ref'),
 ('X16 list_slice skips stop', SC, "        if e.stop is not None:\n            self._visit_expr(e.stop, ctx)", "        if e.stop is not None:\n            pass", 'SC__visit_list_slice'),
 ('X17 if_expr skips else arm', SC, "        self._visit_expr(e.ift, ctx)\n        self._visit_expr(e.iff, ctx)", "        self._visit_expr(e.ift, ctx)\n        self._visit_expr(e.ift, ctx)", 'SC__visit_if_expr'),
 ('X18 attribute: function-position test dropped', SC, "        if ctx.within_call and not isinstance(e.value, Var | Attribute):", "        if False and not isinstance(e.value, Var | Attribute):", 'SC__visit_attribute'),
 ('X19 attribute skips base', SC, "            raise FPySyntaxError('attribute base in function position must be either a variable or another attribute')\n        self._visit_expr(e.value, ctx)", "            raise FPySyntaxError('attribute base in function position must be either a variable or another attribute')\n        pass", 'SC__visit_attribute'),
 ('X20 dispatch: IfExpr -> _visit_bool', VI, 'IfExpr: "_visit_if_expr",', 'IfExpr: "_visit_bool",', 'SC__visit_expr', ['--case', '114']),
 ('X21 dispatch: Cast -> _visit_nullaryop', VI, 'Cast: "_visit_unaryop",', 'Cast: "_visit_nullaryop",', 'SC__visit_expr', ['--case', '94']),
 ('X22 binding: tuple element skipped', SC, "                for elt in binding.elts:\n                    env = self._visit_binding(elt, env)", "                for elt in binding.elts:\n                    self._visit_binding(elt, env)", 'SC__visit_binding'),
 ('X23 binding: writes into the caller env', SC, "            case NamedId():\n                env = env.extend(binding)", "            case NamedId():\n                env.env[binding] = True", 'SC__visit_binding'),
 ('X24 function: free variables bound in place in the caller ctx', SC, "        for var in self.free_vars:\n            env = env.extend(var)", "        for var in self.free_vars:\n            env.env[var] = True", 'SC__visit_function'),
 ('X24b function: arguments not bound', SC, "            if isinstance(arg.name, NamedId):\n                env = env.extend(arg.name)", "            if isinstance(arg.name, NamedId):\n                pass", 'SC__visit_function'),
 ('X25 function: body checked in the terminated env', SC, "        return self._visit_block(func.body, _Ctx(env, False))\n\n    # override to get typing hint\n    def _visit_statement", "        return self._visit_block(func.body, _Ctx(_Env(env.env, terminated=True), False))\n\n    # override to get typing hint\n    def _visit_statement", 'SC__visit_function'),
 ('X26 analyze: function visited twice', SC, "        self._visit_function(self.func, _Ctx.default())\n        return self.free_var_args", "        self._visit_function(self.func, _Ctx.default())\n        self._visit_function(self.func, _Ctx.default())\n        return self.free_var_args", 'SC_analyze'),
 ('X27 check: analysis skipped', SC, "        return inst.analyze()", "        return inst.free_var_args", 'SyntaxCheck_check'),
 ('X28 reach: all-reachable test inverted', RE, "                if not is_reachable:\n                    unreachable.append(stmt)", "                if is_reachable:\n                    unreachable.append(stmt)", 'Reachability_analyze_checked'),
 ('X29 reach: unreachable list ignored', RE, "            if unreachable:\n", "            if not unreachable:\n", 'Reachability_analyze_checked'),
 ('X30 reach: fallthrough check dropped when all_reachable', RE, "        if check_no_fallthrough and analysis.has_fallthrough:", "        if check_no_fallthrough and not check_all_reachable and analysis.has_fallthrough:", 'Reachability_analyze_checked'),
 ('X31 if1 writes the body env into ctx', SC, "        ift_env = self._visit_block(stmt.body, ctx)\n        return env.merge(ift_env)", "        ift_env = self._visit_block(stmt.body, ctx)\n        ctx.env = ift_env\n        return env.merge(ift_env)", 'SC__visit_if1'),
 ('X32 assign binds into ctx.env in place', SC, "        self._visit_expr(stmt.expr, ctx)\n        return self._visit_binding(stmt.target, env)", "        self._visit_expr(stmt.expr, ctx)\n        ctx.env = self._visit_binding(stmt.target, env)\n        return ctx.env", 'SC__visit_assign'),
 ('X33 reach if: marks ctx unreachable', RE, "        iff_is_reachable = self._visit_block(stmt.iff, ctx)\n        return ift_is_reachable or iff_is_reachable", "        iff_is_reachable = self._visit_block(stmt.iff, ctx)\n        ctx.is_reachable = ift_is_reachable or iff_is_reachable\n        return ctx.is_reachable", 'RI_if'),
 ('X34 reach block: threads through the caller ctx object', RE, "            ctx = _ReachabilityCtx(is_reachable)\n", "            ctx.is_reachable = is_reachable\n", 'RI__visit_block'),
 ('X35 decorator: reachability check dropped', DE, "        Reachability.analyze(\n            ast,\n            check_all_reachable=True,\n            check_no_fallthrough=True,\n        )\n", "        pass\n", 'TOOL'),
 ('X36 decorator: all_reachable off', DE, "            check_all_reachable=True,\n", "            check_all_reachable=False,\n", 'TOOL'),
]
sel = sys.argv[1:]
for ent in M:
    name, f, old, new, contract = ent[:5]
    extra = ent[5] if len(ent) > 5 else []
    if sel and not any(name.split()[0] == x for x in sel): continue
    shutil.rmtree(MUT, ignore_errors=True)
    os.makedirs(MUT)
    shutil.copytree('/repo/fpy2', MUT + '/fpy2')
    p = MUT + '/' + f
    s = open(p).read()
    assert s.count(old) == 1, (name, s.count(old))
    open(p, 'w').write(s.replace(old, new))
    if contract == 'TOOL':
        r = subprocess.run(['python3-vt', 'tools/c15x_decorator_flow.py'], cwd=ROOT, capture_output=True, text=True, env=dict(os.environ, FPY_REPO=MUT))
        print(f'{name} [decorator flow tool]: ' + ('CAUGHT: ' + r.stdout.strip().split('\n')[-1].strip()[:120] if r.returncode else 'SURVIVED'))
        continue
    out = subprocess.run(['python3-vt', 'tools/try.py', contract, '--budget', '100', '--cex'] + extra, cwd=ROOT, capture_output=True, text=True,
                         env=dict(os.environ, FPY_REPO=MUT), timeout=170).stdout
    lines = [l for l in out.split('\n') if 'OPEN' in l or 'UNSUPPORTED' in l or 'CRASH' in l]
    lines = [l for l in lines if 'unexpected:NameError' not in l]      # the known finding C15X-1
    hascex = 'cex:' in out
    print(f'{name} [{contract}]: ' + ('; '.join(l.strip()[:100] for l in lines[:4]) if lines else 'SURVIVED (all discharged)') + (' +cex' if hascex else ''))
shutil.rmtree(MUT, ignore_errors=True)
