"""C07-5 (fixed): simplify merged +0.0 and -0.0 at a phi.  Exits 1 if the defect is present."""
import sys
import fpy2 as fp
from fpy2.strategies import simplify


@fp.fpy
def f(c: bool):
    x = 0.0
    if c:
        x = -0.0
    return 1.0 / x


s = simplify(f)
bad = [(c, str(f(c)), str(s(c))) for c in (True, False) if str(f(c)) != str(s(c))]
print('original vs simplified differ on:', bad)
sys.exit(1 if bad else 0)
