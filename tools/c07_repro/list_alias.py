"""C07-4 (known): a list literal mutated through an alias is still folded as a constant.  Exits 1 if present."""
import sys
import fpy2 as fp
from fpy2.strategies import simplify


@fp.fpy
def g():
    xs = [1.0, 2.0]
    ys = xs
    ys[0] = 5.0
    return xs[0] + 1.0


s = simplify(g)
print('original', g(), 'simplified', s())
print(s.format())
sys.exit(1 if str(g()) != str(s()) else 0)
