#!/venv/bin/python
"""
CPython side of the encoder cross-check (translation validation of pyvc's
interpreter): for each contract with a target, generate concrete inputs
(seeded, boundary-biased), keep those meeting the contract's `pre`, run the
REAL function natively and record the outcome.  Output: JSON on stdout.

  /venv/bin/python tools/xcheck_native.py <seed> <n_per_function> <contract-module> [<contract-module> ...]

The symbolic side (pyvc/xcheck.py) then runs pyvc's interpreter on the same
concrete inputs (all constants) and the outcomes must agree.  The same run also
counts how many sampled inputs satisfy each precondition (vacuity witness) and
evaluates the contract natively on the real code (runtime contract check).
"""
import importlib
import json
import os
import random
import struct
import sys
import traceback
from fractions import Fraction

HERE = os.path.dirname(os.path.dirname(os.path.abspath(__file__)))
REPO = os.environ.get('FPY_REPO', '/repo')
sys.path.insert(0, HERE)
sys.path.insert(0, REPO)

import replay  # noqa: E402


def small_int(rng, lo=-12, hi=12):
    r = rng.random()
    if r < 0.5:
        return rng.randint(-3, 3)
    if r < 0.9:
        return rng.randint(lo, hi)
    return rng.choice([-70, -33, 31, 64, 100])


def gen_c(rng):
    r = rng.random()
    if r < 0.15:
        return 0
    if r < 0.5:
        return rng.randint(1, 16)
    if r < 0.8:
        k = rng.randint(1, 12)
        return rng.choice([(1 << k) - 1, 1 << k, (1 << k) + 1])
    return rng.randint(1, 1 << 20)


class Gen:
    def __init__(self, rng):
        self.rng = rng

    def value(self, tstr, depth=0):
        """returns a JSON-encodable description (replay.build format) for a type string"""
        rng = self.rng
        t = tstr.strip()
        if t.replace(' ', '') in ('RNG|None', 'None|RNG'):
            return {'$opaque': 'rng:random.Random'}
        if '|' in t:
            alts = [a.strip() for a in t.split('|')]
            return self.value(rng.choice(alts), depth)
        if t == 'int':
            return small_int(rng)
        if t == 'bool':
            return rng.random() < 0.5
        if t == 'None':
            return None
        if t == 'float':
            choice = rng.random()
            if choice < 0.2:
                f = rng.choice([0.0, -0.0, float('inf'), float('-inf'), float('nan'), 1.0, -1.5, 5e-324, 1.7976931348623157e308])
            else:
                f = rng.choice([1, -1]) * rng.randint(0, 1 << 10) * 2.0 ** rng.randint(-20, 20)
            return {'$float_bits': int.from_bytes(struct.pack('<d', f), 'little')}
        if t == 'Fraction':
            d = rng.choice([1, 2, 4, 8, 3, 5, 10, 1024])
            return {'$frac': [rng.randint(-50, 50), d]}
        if t.startswith('tuple['):
            inner = t[6:-1]
            parts = [p.strip() for p in inner.split(',')]
            return {'$tuple': [self.value(p, depth) for p in parts]}
        if t == 'Flags':
            return {'$obj': 'fpy2.number.number.flags:Flags', 'fields': {'_flags': rng.choice([0, 0, 0, 32, 8 | 32, rng.randint(0, 127)])}}
        if t == 'RealFloat':
            return {'$obj': 'fpy2.number.number.reals:RealFloat', 'fields': {
                '_s': rng.random() < 0.5, '_exp': small_int(rng), '_c': gen_c(rng), '_flags': self.value('Flags')}}
        if t == 'Float':
            r = rng.random()
            return {'$obj': 'fpy2.number.number.floats:Float', 'fields': {
                '_isinf': 0.1 <= r < 0.2, '_isnan': r < 0.1, '_ctx': None, '_real': self.value('RealFloat')}}
        if t in ('RoundingMode', 'RoundingDirection', 'OverflowMode'):
            import fpy2.number.round as R
            cls = getattr(R, t)
            return {'$enum': f'fpy2.number.round:{t}', 'member': rng.choice(list(cls)).name}
        if t == 'Ordering':
            return {'$enum': 'fpy2.utils.ordering:Ordering', 'member': rng.choice(['LESS', 'EQUAL', 'GREATER'])}
        if t in ('RNG', 'RNG | None'):
            return {'$opaque': 'rng:random.Random'}
        ctor = CTORS.get(t)
        if ctor is not None:
            return {'$ctor': t, 'args': ctor(self)}
        raise KeyError(t)


def _mpfloat(g):
    return {'pmax': g.rng.randint(1, 12), 'rm': g.value('RoundingMode'), 'num_randbits': 0,
            'enable_nan': g.rng.random() < 0.7, 'enable_inf': g.rng.random() < 0.7}


CTORS = {
    'MPFloatContext': _mpfloat,
    'MPFloatFormat': lambda g: {'pmax': g.rng.randint(1, 12), 'enable_nan': g.rng.random() < 0.7, 'enable_inf': g.rng.random() < 0.7},
}


def build(v, env, ghost_fn):
    if isinstance(v, dict) and '$ctor' in v:
        import fpy2
        import fpy2.number.context as C
        cls = getattr(C, v['$ctor'], None) or getattr(fpy2, v['$ctor'])
        kwargs = {k: build(x, env, ghost_fn) for k, x in v['args'].items()}
        return cls(**kwargs)
    return replay.build(v, env, ghost_fn)


def encode(v, depth=0):
    """real value -> JSON structure comparable with pyvc's concrete interpreter results"""
    import enum
    if isinstance(v, enum.Flag):
        return {'$flag': type(v).__name__, 'bits': v.value}
    if isinstance(v, enum.Enum):
        return {'$enum': type(v).__name__, 'member': v.name}
    if v is None or isinstance(v, (bool, int, str)):
        return v
    if isinstance(v, float):
        return {'$float_bits': int.from_bytes(struct.pack('<d', v), 'little')}
    if isinstance(v, Fraction):
        return {'$frac': [v.numerator, v.denominator]}
    if isinstance(v, tuple):
        return {'$tuple': [encode(x, depth) for x in v]}
    if isinstance(v, list):
        return [encode(x, depth) for x in v]
    if depth > 6:
        return {'$deep': type(v).__name__}
    fields = {}
    names = []
    for klass in type(v).__mro__:
        for s in getattr(klass, '__slots__', ()) or ():
            if isinstance(s, str):
                names.append(s)
    if hasattr(v, '__dict__'):
        names += list(v.__dict__)
    for n in names:
        if n in ('_ctx', 'rng'):
            try:
                x = getattr(v, n)
                fields[n] = None if x is None else {'$cls': '*'}
            except AttributeError:
                pass
            continue
        try:
            fields[n] = encode(getattr(v, n), depth + 1)
        except AttributeError:
            pass
    return {'$obj': type(v).__name__, 'fields': fields}


def main():
    seed = int(sys.argv[1])
    n = int(sys.argv[2])
    out = {'seed': seed, 'functions': []}
    ghost_fn = replay.make_ghost({})
    import speclib
    draw = lambda k: ((seed * 2654435761 + k * 40503) % (1 << k)) if k > 0 else 0
    speclib.GHOST['draw'] = draw
    ghost_fn = lambda name: draw
    for modname in sys.argv[3:]:
        mod = importlib.import_module(modname)
        for cname, C in sorted(vars(mod).items()):
            if not isinstance(C, type) or not issubclass(C, speclib.Contract) or C is speclib.Contract:
                continue
            if getattr(C, 'trusted', False) or not getattr(C, 'target', None) or C.__module__ != modname:
                continue
            only = os.environ.get('XCHECK_ONLY')
            if only and cname not in only.split(','):
                continue
            rng = random.Random(hash((seed, cname)) & 0xffffffff)
            g = Gen(rng)
            rec = {'contract': cname, 'module': modname, 'target': C.target, 'cases': [], 'generated': 0,
                   'pre_ok': 0, 'contract_failures': [], 'skipped': None}
            tries = 0
            while len(rec['cases']) < n and tries < n * 30:
                tries += 1
                try:
                    desc = {p: g.value(t) for p, t in C.params.items()}
                except KeyError as e:
                    rec['skipped'] = f'no generator for type {e}'
                    break
                rec['generated'] += 1
                doc = {'contract_module': modname, 'contract': cname, 'args': desc, 'ghost': {}}
                try:
                    env = {}
                    args = {k: build(v, env, ghost_fn) for k, v in desc.items()}
                    # re-encode ctor-built objects so the symbolic side sees plain field structures
                    desc2 = {k: (encode_input(args[k]) if isinstance(v, dict) and '$ctor' in v else v) for k, v in desc.items()}
                    doc['args'] = desc2
                    doc['ghost'] = {}
                    o, code = replay.replay(dict(doc), ghost_override=draw)
                except Exception as e:
                    rec['skipped'] = f'harness error {type(e).__name__}: {e}'
                    break
                if o.get('verdict') == 'precondition-not-met':
                    continue
                rec['pre_ok'] += 1
                case = {'args': desc2, 'outcome': o.get('outcome'), 'verdict': o.get('verdict')}
                # the raw result, re-run for encoding
                try:
                    env = {}
                    args = {k: replay.build(v, env, ghost_fn) for k, v in desc2.items()}
                    res = call_target(C.target, args)
                    case['result'] = ('return', encode(res))
                except Exception as e:
                    case['result'] = ('raise', type(e).__name__)
                if code == 1:
                    rec['contract_failures'].append({'args': desc2, 'failed': o.get('failed'), 'outcome': o.get('outcome')})
                rec['cases'].append(case)
            out['functions'].append(rec)
    json.dump(out, sys.stdout, default=str)


def encode_input(v):
    """a real object -> replay.build description (by fields)"""
    import enum
    if isinstance(v, enum.Enum):
        return {'$enum': f'{type(v).__module__}:{type(v).__qualname__}', 'member': v.name}
    if v is None or isinstance(v, (bool, int, str)):
        return v
    if isinstance(v, float):
        return {'$float_bits': int.from_bytes(struct.pack('<d', v), 'little')}
    if isinstance(v, Fraction):
        return {'$frac': [v.numerator, v.denominator]}
    if isinstance(v, tuple):
        return {'$tuple': [encode_input(x) for x in v]}
    names = []
    for klass in type(v).__mro__:
        for s in getattr(klass, '__slots__', ()) or ():
            if isinstance(s, str):
                names.append(s)
    if hasattr(v, '__dict__'):
        names += list(v.__dict__)
    fields = {}
    for n in names:
        try:
            fields[n] = encode_input(getattr(v, n))
        except AttributeError:
            pass
    return {'$obj': f'{type(v).__module__}:{type(v).__qualname__}', 'fields': fields}


def call_target(target, args):
    mod, _, qual = target.partition(':')
    m = importlib.import_module(mod)
    parts = qual.split('.')
    if len(parts) == 1:
        return getattr(m, parts[0])(**args)
    cls = getattr(m, parts[0])
    raw = cls.__dict__.get(parts[1]) or getattr(cls, parts[1])
    rest = {k: v for k, v in args.items() if k not in ('self', 'cls')}
    if parts[1] == '__init__':
        obj = cls.__new__(cls)
        cls.__init__(obj, **rest)
        return obj
    if isinstance(raw, staticmethod):
        return raw.__func__(**rest)
    if isinstance(raw, classmethod):
        return raw.__func__(args.get('cls', cls), **rest)
    if isinstance(raw, property):
        return raw.fget(args['self'])
    return raw(args['self'], **rest)


if __name__ == '__main__':
    main()
