#!/usr/bin/env python3-vt
"""
Numerical self-tests of what the C06 contracts TRUST (run: python3-vt tools/selftest_c06.py).

 T1  speclib.dec_groups / hex_groups (hand-written scanner = the native meaning of the trusted regex
     decomposition of pyvc/strings.py) agrees with re.fullmatch(<pinned pattern>, s.strip()) and its
     groups, on every string up to length 6 over a small alphabet and on random longer strings; and
     the pinned pattern texts are the ones in the repository.
 T2  speclib.dval is int(d, base) on digit strings.
 CL  x & (x-1) == 0  <=>  x == 2^(bit_length(x)-1)   for x >= 1, and 0 <= x & (x-1) < x.
 IP  theory.bounded_defs pins ipow to b**e.
 FR  speclib.float_rounds_to(x, v) agrees with float(str) on random decimal spellings.
"""
import itertools
import os
import random
import re
import sys

ROOT = os.path.dirname(os.path.dirname(os.path.abspath(__file__)))
sys.path.insert(0, ROOT)
import speclib
from pyvc import strings

bad = []


def check_groups(s, kind):
    pat = strings.DEC_PATTERN if kind == 'dec' else strings.HEX_PATTERN
    m = re.fullmatch(pat, s.strip())
    g = (speclib.dec_groups if kind == 'dec' else speclib.hex_groups)(s)
    if (m is not None) != g[0]:
        bad.append(('match', kind, s))
        return
    if m is None:
        return
    sign, mant, exp = m.group(1), m.group(2), m.group(5)
    I, _, F = mant.partition('.')
    want = (True, sign == '-', I, F, exp is not None and exp.startswith('-'), (exp or '').lstrip('+-'))
    if g != want:
        bad.append(('groups', kind, s, g, want))


n = 0
for kind, alpha in (('dec', '01.e+-9 a'), ('hex', '0x1.p+-f a')):
    for L in range(0, 7):
        for t in itertools.product(alpha, repeat=L):
            check_groups(''.join(t), kind)
            n += 1
rnd = random.Random(6)
for _ in range(200000):
    kind = rnd.choice(['dec', 'hex'])
    alpha = '0123456789.e+-' if kind == 'dec' else '0123456789abcdefx.p+-'
    if rnd.random() < 0.6:
        # near-grammatical
        d = lambda k: ''.join(rnd.choice(alpha[:10] if kind == 'dec' else '0123456789abcdef') for _ in range(rnd.randint(0, k)))
        s = rnd.choice(['', '+', '-']) + ('0x' if kind == 'hex' else '') + d(5) + rnd.choice(['', '.']) + d(5) \
            + rnd.choice(['', 'e' if kind == 'dec' else 'p']) + rnd.choice(['', '+', '-']) + ''.join(rnd.choice('0123456789') for _ in range(rnd.randint(0, 3)))
    else:
        s = ''.join(rnd.choice(alpha) for _ in range(rnd.randint(0, 12)))
    check_groups(s, kind)
    n += 1
print(f'T1: {n} strings compared with re.fullmatch')

src = open(os.path.join(os.environ.get('FPY_REPO', '/repo'), 'fpy2/utils/fractions.py')).read()
for pat in (strings.DEC_PATTERN, strings.HEX_PATTERN):
    if f"re.compile(r'{pat}')" not in src:
        bad.append(('pinned pattern not in repo', pat))

for base, alpha in ((10, '0123456789'), (16, '0123456789abcdef')):
    for _ in range(20000):
        d = ''.join(rnd.choice(alpha) for _ in range(rnd.randint(1, 40)))
        if speclib.dval(d, base) != int(d, base):
            bad.append(('dval', d, base))
    if speclib.dval('', base) != 0:
        bad.append(('dval empty', base))
print('T2: dval == int(d, base)')

for x in range(1, 1 << 14):
    r = x & (x - 1)
    if not (0 <= r < x) or ((r == 0) != (x == 1 << (x.bit_length() - 1))):
        bad.append(('CL', x))
print('CL: x & (x-1) law')

import z3
from pyvc import theory
b, e = z3.Ints('b e')
t = theory.ipow(b, e)
for bv in (-3, 0, 2, 10, 16):
    for ev in range(0, 13):
        s = z3.Solver()
        s.add(b == bv, e == ev, *theory.bounded_defs([t >= 0], 24))
        assert s.check() == z3.sat
        if s.model().eval(t).as_long() != bv ** ev:
            bad.append(('IP', bv, ev))
print('IP: bounded ipow == b**e')

for _ in range(20000):
    I = ''.join(rnd.choice('0123456789') for _ in range(rnd.randint(1, 20)))
    F = ''.join(rnd.choice('0123456789') for _ in range(rnd.randint(0, 20)))
    E = rnd.randint(-330, 310)
    s = I + ('.' + F if F else '') + f'e{E}'
    g = speclib.dec_groups(s)
    from fractions import Fraction
    x = (Fraction(speclib.dval(g[2], 10)) + Fraction(speclib.dval(g[3], 10), 10 ** len(g[3]))) * Fraction(10) ** E
    if not speclib.float_rounds_to(x, float(s)):
        bad.append(('FR', s))
print('FR: float_rounds_to agrees with float(str)')

print('BAD:', bad[:10])
sys.exit(1 if bad else 0)
