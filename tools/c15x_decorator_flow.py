#!/usr/bin/env python3
"""
C15 extension, syntactic companion check (NOT a pyvc proof): `fpy2/decorator.py:_apply_fpy_decorator` is straight-line
code over externals (inspect, the parser) that pyvc does not model.  This script reads the CURRENT source with `ast` and
checks the control-flow shape the property relies on:

  * the function body contains no try/except, no loop and no early return: its only `return` is the last statement;
  * the only branching is one `if decorator == pattern: ... else: ...`;
  * the else arm (every decorator but `@pattern`, i.e. `@fpy`) calls, in this order and unconditionally,
        SyntaxCheck.check(ast, free_vars=free_vars)                              (default ignore_unknown / allow_wildcard)
        Reachability.analyze(ast, check_all_reachable=True, check_no_fallthrough=True)
    on the SAME name that is then wrapped by `Function(...)`;
  * the pattern arm calls SyntaxCheck.check (patterns are never executed: no reachability requirement).

exit 0 = shape holds, 1 = it does not (prints why).  FPY_REPO selects the tree (default /repo).
"""
import ast
import os
import sys

REPO = os.environ.get('FPY_REPO', '/repo')


def calls_in(stmts):
    out = []
    for st in stmts:
        for n in ast.walk(st):
            if isinstance(n, ast.Call):
                out.append(n)
    return out


def top_level_calls(stmts):
    """calls that are executed unconditionally by a straight-line statement list (Expr / Assign statements)"""
    out = []
    for st in stmts:
        if isinstance(st, (ast.Expr, ast.Assign, ast.AnnAssign)):
            v = st.value
            if isinstance(v, ast.Call):
                out.append(v)
    return out


def main():
    src = open(os.path.join(REPO, 'fpy2', 'decorator.py')).read()
    tree = ast.parse(src)
    fn = next((n for n in tree.body if isinstance(n, ast.FunctionDef) and n.name == '_apply_fpy_decorator'), None)
    bad = []
    if fn is None:
        print('no _apply_fpy_decorator')
        return 1
    for n in ast.walk(fn):
        if isinstance(n, (ast.Try, ast.For, ast.While, ast.With, ast.Match)) or type(n).__name__ == 'TryStar':
            bad.append(f'line {n.lineno}: {type(n).__name__} in the decorator flow')
    rets = [n for n in ast.walk(fn) if isinstance(n, ast.Return)]
    if len(rets) != 1 or fn.body[-1] is not rets[0]:
        bad.append('the only return must be the last statement')
    ifs = [n for n in ast.walk(fn) if isinstance(n, (ast.If, ast.IfExp))]
    if len(ifs) != 1 or not isinstance(ifs[0], ast.If) or ifs[0] not in fn.body:
        bad.append('exactly one top-level if expected')
    else:
        br = ifs[0]
        if ast.unparse(br.test) != 'decorator == pattern':
            bad.append(f'unexpected branch condition {ast.unparse(br.test)}')
        ret = ast.unparse(rets[0].value) if rets else ''
        wrapped = rets[0].value.args[0].id if rets and isinstance(rets[0].value, ast.Call) and rets[0].value.args \
            and isinstance(rets[0].value.args[0], ast.Name) else None
        if not ret.startswith('Function(') or wrapped is None:
            bad.append(f'unexpected return {ret}')
        for arm, name, need_reach in ((br.body, 'pattern arm', False), (br.orelse, 'fpy arm', True)):
            calls = [ast.unparse(c) for c in top_level_calls(arm)]
            sc = [c for c in calls if c.startswith('SyntaxCheck.check(')]
            ra = [c for c in calls if c.startswith('Reachability.analyze(')]
            if len(sc) != 1 or not sc[0].startswith(f'SyntaxCheck.check({wrapped},'):
                bad.append(f'{name}: SyntaxCheck.check({wrapped}, ...) must be called exactly once unconditionally: {sc}')
            if need_reach:
                if sc and sc[0] != f'SyntaxCheck.check({wrapped}, free_vars=free_vars)':
                    bad.append(f'{name}: syntax check is not in the default (strict) configuration: {sc[0]}')
                want = f'Reachability.analyze({wrapped}, check_all_reachable=True, check_no_fallthrough=True)'
                if ra != [want]:
                    bad.append(f'{name}: expected exactly {want}, found {ra}')
                elif calls.index(sc[0]) > calls.index(ra[0]):
                    bad.append(f'{name}: reachability before syntax check')
            # the checked name is not rebound between the checks and the return
            for st in arm:
                for n in ast.walk(st):
                    if isinstance(n, ast.Name) and isinstance(n.ctx, ast.Store) and n.id == wrapped:
                        bad.append(f'{name}: `{wrapped}` is rebound at line {n.lineno}')
        after = fn.body[fn.body.index(br) + 1:]
        for st in after[:-1]:
            bad.append(f'line {st.lineno}: statement between the checks and the return')
    if bad:
        print('C15x decorator flow: SHAPE VIOLATED')
        for b in bad:
            print('  ', b)
        return 1
    print('C15x decorator flow: ok (fpy arm: SyntaxCheck.check then Reachability.analyze(all_reachable, no_fallthrough), '
          'unconditionally, on the returned AST)')
    return 0


if __name__ == '__main__':
    sys.exit(main())
