#!/venv/bin/python
"""
Bounded stand-in by exhaustive native enumeration (labelled bounded, never
counted as proved): for a contract that defines `native_grid()` (a generator of
(args dict, ghost dict) pairs built from REAL fpy2 objects), evaluate the
contract natively on the real code for every grid point.

  /venv/bin/python tools/native_bounded.py <contract-module> <ContractName> <shard> <nshards>
prints JSON {cases, pre_ok, failures:[...first 5...]}
"""
import importlib
import inspect
import json
import os
import sys

HERE = os.path.dirname(os.path.dirname(os.path.abspath(__file__)))
REPO = os.environ.get('FPY_REPO', '/repo')
sys.path.insert(0, HERE)
sys.path.insert(0, os.path.join(HERE, 'tools'))
sys.path.insert(0, REPO)

import replay  # noqa: E402
import speclib  # noqa: E402
import xcheck_native as X  # noqa: E402


def main():
    modname, cname, shard, nshards = sys.argv[1], sys.argv[2], int(sys.argv[3]), int(sys.argv[4])
    mod = importlib.import_module(modname)
    C = getattr(mod, cname)
    out = {'contract': cname, 'cases': 0, 'pre_ok': 0, 'failures': [], 'more_failures': 0}

    def spec(fname, args, extra=None):
        fn = C.__dict__.get(fname)
        if fn is None:
            return {}
        kw = {}
        for n in inspect.signature(fn).parameters:
            if n in args:
                kw[n] = args[n]
            elif extra and n in extra:
                kw[n] = extra[n]
        return fn(**kw)

    grid = C.__dict__['native_grid']
    grid = grid.__func__ if isinstance(grid, staticmethod) else grid
    for i, (args, ghost) in enumerate(grid()):
        if i % nshards != shard:
            continue
        out['cases'] += 1
        speclib.GHOST.clear()
        speclib.GHOST.update(ghost)
        pre = spec('pre', args)
        if not all(pre.values()):
            continue
        out['pre_ok'] += 1
        desc = None
        if len(out['failures']) < 5:
            desc = {k: X.encode_input(v) if not isinstance(v, replay.ScriptedRandom) else {'$opaque': 'rng:random.Random'}
                    for k, v in args.items()}
        failed = []
        try:
            res = X.call_target(C.target, args)
            outcome = ('return', res)
        except Exception as e:
            outcome = ('raise', type(e).__name__, [c.__name__ for c in type(e).__mro__[1:]])
        rz = spec('raises', args)
        if outcome[0] == 'raise':
            key = outcome[1] if outcome[1] in rz else next((b for b in outcome[2] if b in rz), None)
            if key is None:
                failed.append(f'raises[unexpected:{outcome[1]}]')
            elif not rz[key]:
                failed.append(f'raises[{key}]')
        else:
            failed += [f'noraise[{k}]' for k, v in rz.items() if v]
            post = spec('post', args, {'result': outcome[1]})
            failed += [f'post[{k}]' for k, v in post.items() if not v]
            for a in args.values():
                if isinstance(a, replay.ScriptedRandom):
                    cc = (getattr(C, 'options', {}) or {}).get('call_counts', {})
                    for callee, cnt in cc.items():
                        if 'randbits' in callee and a.draws != cnt:
                            failed.append(f'calls[{callee}=={cnt}]')
        if failed and desc is not None:
            gh = {k: {'table': [], 'else': v(0) if callable(v) else v} for k, v in ghost.items()}
            out['failures'].append({'args': desc, 'failed': failed, 'ghost': gh})
        elif failed:
            out['more_failures'] += 1
    print(json.dumps(out, default=str))


if __name__ == '__main__':
    main()
