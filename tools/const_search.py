#!/venv/bin/python
"""
Native search for T4 (C03): find a (precision p, rounding mode) at which fpy2.ops.<const>(ctx=MPFloatContext(p, rm))
differs from the correctly rounded constant.

  /venv/bin/python tools/const_search.py <CONST> <ops function> <max_p>      -> one JSON line

Reference: the constant is enclosed in [lo, hi] by evaluating ONE expression with 300 extra digits under
round-down and round-up (interval arithmetic for the quotients); both ends are rounded with the C01-verified
RealFloat.round; if they agree that is the correctly rounded value (otherwise the pair is skipped).
"""
import json
import os
import sys

sys.path.insert(0, os.environ.get('FPY_REPO', '/repo'))

import gmpy2 as gmp
import fpy2
from fpy2 import MPFloatContext, RM, RealFloat


def enclosure(name, prec):
    def ev(rnd_lo, rnd_hi):
        out = []
        for rnd, other in ((rnd_lo, rnd_hi), (rnd_hi, rnd_lo)):
            with gmp.context(precision=prec, round=rnd) as c:
                def opp(f):
                    with gmp.context(precision=prec, round=other):
                        return f()
                if name == 'E':
                    v = gmp.exp(1)
                elif name == 'LOG2E':       # 1 / ln 2 : numerator exact, divide by the opposite bound
                    v = gmp.div(1, opp(gmp.const_log2))
                elif name == 'LOG10E':      # 1 / ln 10
                    v = gmp.div(1, opp(lambda: gmp.log(10)))
                elif name == 'LN2':
                    v = gmp.const_log2()
                elif name == 'LN10':
                    v = gmp.log(10)
                elif name == 'PI':
                    v = gmp.const_pi()
                elif name == 'PI_2':
                    v = gmp.const_pi() / 2
                elif name == 'PI_4':
                    v = gmp.const_pi() / 4
                elif name == 'M_1_PI':
                    v = gmp.div(1, opp(gmp.const_pi))
                elif name == 'M_2_PI':
                    v = gmp.div(2, opp(gmp.const_pi))
                elif name == 'M_2_SQRTPI':
                    v = gmp.div(2, opp(lambda: gmp.sqrt(opp2(gmp.const_pi, other, prec))))
                elif name == 'SQRT2':
                    v = gmp.sqrt(2)
                elif name == 'SQRT1_2':
                    v = gmp.sqrt(gmp.mpfr('0.5'))
                else:
                    raise ValueError(name)
                out.append(v)
        return out
    lo, hi = ev(gmp.RoundDown, gmp.RoundUp)
    return lo, hi


def opp2(f, rnd, prec):
    with gmp.context(precision=prec, round=rnd):
        return f()


def to_real(x):
    m, e = x.as_mantissa_exp()
    return RealFloat(s=bool(m < 0), exp=int(e), c=abs(int(m)))


def main():
    name, ops_name, max_p = sys.argv[1], sys.argv[2], int(sys.argv[3])
    fn = getattr(fpy2.ops, ops_name)
    checked = 0
    fails = []
    for p in range(1, max_p + 1):
        lo, hi = enclosure(name, p + 300)
        rlo, rhi = to_real(lo), to_real(hi)
        for rm in RM:
            a = rlo.round(max_p=p, rm=rm)
            b = rhi.round(max_p=p, rm=rm)
            if not (a == b):
                continue
            checked += 1
            got = fn(ctx=MPFloatContext(p, rm))
            bad_value = not (got.as_real() == a)
            bad_flag = got.inexact is not True        # none of these constants is representable: must be flagged inexact
            if bad_value or bad_flag:
                fails.append({'p': p, 'rm': rm.name, 'got': str(got), 'expected': str(fpy2.Float.from_real(a)),
                              'inexact_flag': bool(got.inexact), 'wrong': 'value' if bad_value else 'inexact flag not set'})
    fails.sort(key=lambda f: (f['wrong'] != 'value', f['p']))
    doc = {'constant': name, 'ops': ops_name, 'pairs_checked': checked, 'failing_pairs': len(fails),
           'wrong_value_pairs': len([f for f in fails if f['wrong'] == 'value']),
           'reproduced': bool(fails), 'first': fails[0] if fails else None,
           'repro': (f"/venv/bin/python -c \"from fpy2 import *; import fpy2; print(fpy2.ops.{ops_name}(ctx=MPFloatContext({fails[0]['p']}, RM.{fails[0]['rm']})))\""
                     if fails else None)}
    print(json.dumps(doc))
    return 1 if fails else 0


if __name__ == '__main__':
    sys.exit(main())
