#!/venv/bin/python
"""
Native replay of a failed operator-table obligation (C04 / P1, pyvc/optables.py) on the REAL fpy2 objects.

  /venv/bin/python tools/c04_tables_native.py '<json: {"table":..., "key":..., "want":...}>'

Looks the entry up in the imported module (FPY_REPO selects the tree) and, for a surface function `fp.<f>` that the
parser table lacks, also runs a one-line FPy program calling it.  Prints one JSON line: {"reproduced": bool, ...}.
"""
import builtins
import importlib
import json
import os
import sys
import tempfile

sys.path.insert(0, os.environ.get('FPY_REPO', '/repo'))


def resolve(name):
    import ast
    import fractions
    import fpy2
    from fpy2 import ops
    from fpy2.ast import fpyast
    from fpy2.interpret import byte
    if name.startswith('ops.'):
        return getattr(ops, name[4:])
    if name.startswith('builtins.'):
        return getattr(builtins, name[9:])
    if name.startswith('ast.'):
        return getattr(ast, name[4:])
    if name.startswith('byte.'):
        return getattr(byte, name[5:])
    if name.startswith('CompareOp.'):
        return getattr(fpyast.CompareOp, name[10:])
    if name.startswith('fractions.'):
        return getattr(fractions, name[10:])
    if name.startswith('number.'):
        return getattr(fpy2.number, name[7:])
    return getattr(fpyast, name)


def run_program(fname, arity):
    args = ', '.join(f'x{i}: fp.Real' for i in range(max(arity, 1)))
    call = ', '.join(f'x{i}' for i in range(arity))
    src = f'import fpy2 as fp\n@fp.fpy\ndef prog({args}):\n    return fp.{fname}({call})\n'
    d = tempfile.mkdtemp()
    with open(os.path.join(d, 'c04_prog.py'), 'w') as f:
        f.write(src)
    sys.path.insert(0, d)
    try:
        m = importlib.import_module('c04_prog')
        r = m.prog(*[5.0, 3.0, 2.0][:max(arity, 1)])
        return src, f'returned {r!r}', False
    except Exception as e:
        return src, f'{type(e).__name__}: {e}', True


def main():
    q = json.loads(sys.argv[1])
    from fpy2.frontend import parser
    from fpy2.interpret import byte
    out = {'query': q}
    if q.get('extra') is not None:
        out.update(reproduced=bool(q['extra']), repro=f"extra entries {q['extra']}")
        print(json.dumps(out))
        return
    tname, key, want = q['table'], q['key'], q['want']
    if tname == 'namespace':
        table = byte.make_namespace()
        k = key
    else:
        mod, _, attr = tname.partition('.')
        table = getattr(parser if mod == 'parser' else byte, attr)
        k = resolve(key)
    w = resolve(want)
    if k not in table:
        out.update(reproduced=True, repro=f'{tname} has no key {key}')
        if tname.startswith('parser.') and key.startswith('ops.'):
            arity = {'_nullary_table': 0, '_unary_table': 1, '_binary_table': 2, '_ternary_table': 3}.get(tname.split('.')[1], 2)
            src, res, failed = run_program(key[4:], arity)
            out.update(program=src, program_result=res, reproduced=failed)
    else:
        got = table[k]
        same = got is w or (not callable(got) and got == w)
        out.update(reproduced=not same, repro=f'{tname}[{key}] is {got!r}, reference {want}')
    out['first'] = {'table': tname, 'key': key}
    print(json.dumps(out))


if __name__ == '__main__':
    main()
