#!/venv/bin/python
"""
Native cross-check (run under /venv/bin/python): the Fraction definition of the bounded dialect's
rounding (pyvc/fpyround.py: rnd_frac) agrees with fpy2's MPFloatContext(p, mode).round on every
mode, p in 1..6 and every dyadic value k / 2^6 with |k| <= 2^10 (exhaustive in that window).
"""
import importlib.util
import os
import sys
from fractions import Fraction

ROOT = os.path.dirname(os.path.dirname(os.path.abspath(__file__)))
spec = importlib.util.spec_from_file_location('fpyround', os.path.join(ROOT, 'pyvc', 'fpyround.py'))
fr = importlib.util.module_from_spec(spec)
spec.loader.exec_module(fr)

import fpy2 as fp

bad = 0
n = 0
for mode in fr.MODES:
    rm = getattr(fp.RM, mode)
    for p in range(1, 7):
        ctx = fp.MPFloatContext(p, rm)
        for k in range(-1024, 1025):
            v = Fraction(k, 64)
            want = ctx.round(v).as_rational()
            got = fr.rnd_frac(v, p, mode)
            n += 1
            if want != got:
                bad += 1
                if bad < 10:
                    print('MISMATCH', mode, p, v, 'fpy2', want, 'rnd_frac', got)
print(f'{n} roundings compared, {bad} mismatches')
sys.exit(1 if bad else 0)
