#!/venv/bin/python
"""
Native cross-check for the bounded stand-in contract efloat__ext_to_mpb_fmt (contracts/ctx2_efloat_ctor.py):
for every EFloat configuration with nbits <= 9 (all es, enable_inf, nan kinds, a few exponent offsets)
  * _format_is_valid agrees with spec.ctx2.ef2_valid,
  * the derived MPB format (pmax, emin, pos_maxval) has exactly the finite value set of the bit patterns
    (EFloatFormat.decode over all 2^nbits words): same largest value, every decoded finite value representable,
    and the spec's largest finite code (ef2_max_e / ef2_max_mb) has that value.
Run: /venv/bin/python tools/ctx2_native_efloat.py   (exit code 0 = all agree)
"""
import os
import sys
from fractions import Fraction

ROOT = os.path.dirname(os.path.dirname(os.path.abspath(__file__)))
sys.path.insert(0, ROOT)
sys.path.insert(0, os.environ.get('FPY_REPO', '/repo'))

from fpy2.number.context.efloat import EFloatFormat, EFloatNanKind, _format_is_valid   # noqa: E402
from spec.ctx2 import ef2_valid, ef2_max_e, ef2_max_mb, ef2_emin, code_c, code_exp      # noqa: E402


def val(x):
    return Fraction(x.c) * Fraction(2) ** x.exp * (-1 if x.s else 1)


def main():
    bad = 0
    n = 0
    for nbits in range(0, 10):
        for es in range(-1, nbits + 2):
            for inf in (False, True):
                for nk in EFloatNanKind:
                    v_code = _format_is_valid(es, nbits, inf, nk)
                    v_spec = bool(ef2_valid(es, nbits, inf, nk.name))
                    n += 1
                    if v_code != v_spec:
                        bad += 1
                        print('VALID MISMATCH', es, nbits, inf, nk, v_code, v_spec)
                        continue
                    if not v_code:
                        continue
                    for eoffset in (-3, 0, 5):
                        f = EFloatFormat(es, nbits, inf, nk, eoffset)
                        fin = [d for d in (f.decode(w) for w in range(1 << nbits)) if not d.isnan and not d.isinf]
                        top = max(abs(val(d)) for d in fin)
                        mv = f._mpb_fmt.pos_maxval
                        p = nbits - es
                        m = p - 1
                        emin = ef2_emin(es, eoffset)
                        e = ef2_max_e(es, m, inf, nk.name)
                        mb = ef2_max_mb(es, m, inf, nk.name)
                        spec_top = Fraction(code_c(e, mb, m)) * Fraction(2) ** code_exp(e, emin - p + 1)
                        ok = (Fraction(mv.c) * Fraction(2) ** mv.exp == top == spec_top
                              and f._mpb_fmt.pmax == p and f._mpb_fmt.emin == emin
                              and all(f._mpb_fmt.representable_in(d) for d in fin))
                        if not ok:
                            bad += 1
                            print('MAXVAL MISMATCH', es, nbits, inf, nk, eoffset, mv, top, spec_top)
    print(f'{n} configurations, {bad} mismatches')
    return 1 if bad else 0


if __name__ == '__main__':
    sys.exit(main())
