#!/usr/bin/env python3
"""Run only the CPython cross-check / runtime-contract sampling of a property for several seeds
(the part of a check whose inputs depend on VERIF_SEED).  python3-vt tools/xcheck_seeds.py C05 2 3 4"""
import json, os, sys
ROOT = os.path.dirname(os.path.dirname(os.path.abspath(__file__)))
sys.path.insert(0, ROOT)
from pyvc.check import contract_modules
from pyvc.run import make_explorer
from pyvc.xcheck import run as xrun
prop = sys.argv[1]
mods = contract_modules()
ex = make_explorer(mods)
names = [n for n, c in ex.contracts.items() if prop in c.props]
xmods = sorted({ex.contracts[n].ci.module.name for n in names})
for seed in map(int, sys.argv[2:]):
    xc = xrun(seed + 1, 8, xmods, only=names)
    print(prop, 'seed', seed, 'error' if xc.get('error') else '', 'functions', xc.get('functions'), 'inputs', xc.get('inputs'), 'agree', xc.get('agree'),
          'disagreements', len(xc.get('disagreements', [])), 'runtime_failures', len(xc.get('runtime_contract_failures', [])))
    for d in xc.get('disagreements', [])[:3]:
        print('   DISAGREE', d['contract'], json.dumps(d['native'])[:150], json.dumps(d['pyvc'])[:150])
    for f in xc.get('runtime_contract_failures', [])[:6]:
        print('   RUNTIME', f['contract'], f.get('failed'), json.dumps(f['args'])[:200])
    if xc.get('error'):
        print(xc['error'][-500:])
