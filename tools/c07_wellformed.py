#!/venv/bin/python
"""
Native sanity check of the ASSUMED well-formedness facts R0-R2 of spec.c07.du_wellformed (reaching definitions
vs name_to_defs) on the C07 candidate programs and a few more: for every plain copy `x = y`
  R0  defs lists every definition once
  R1  the definition of y reaching the copy is defs[i] with defs[i] in name_to_defs[y]
  R2  at every use of the copy, the reaching definition of y exists and is in name_to_defs[y]
Run:  /venv/bin/python tools/c07_wellformed.py      (exit 0 = all hold)
"""
import os
import sys

ROOT = os.path.dirname(os.path.dirname(os.path.abspath(__file__)))
sys.path.insert(0, ROOT)
sys.path.insert(0, os.environ.get('FPY_REPO', '/repo'))

import fpy2 as fp
from fpy2.analysis import AssignDef
from fpy2.ast import fpyast as A
from fpy2.utils import Id
from spec import c07_ref as R


def _while_copy(y: fp.Real, n: fp.Real):
    x = y
    i = 0
    while i < n:
        y = y + x
        i = i + 1
    return y + x


def _nested(y: fp.Real, c: bool):
    if c:
        x = y
        z = x + 1
    else:
        z = y
    w = z
    return w * w


def main():
    bad = 0
    for fn in R.COPY_PROGRAMS + R.DEAD_PROGRAMS + [_while_copy, _nested]:
        f = R.as_model(fn)
        du = f.def_use
        R.CURRENT['func'], R.CURRENT['du'] = f, du
        n = len(du.defs)
        ok0 = len(set(du.def_to_idx.values())) == n and all(du.defs[i] != du.defs[j] for i in range(n) for j in range(i))
        rows = []
        for d in du.defs:
            if not (isinstance(d, AssignDef) and isinstance(d.site, A.Assign) and isinstance(d.site.target, Id) and isinstance(d.site.expr, A.Var)):
                continue
            y = d.site.expr.name
            i = R.reach_site(du, d.site, y)
            r1 = 0 <= i < n and du.defs[i] in du.name_to_defs.get(y, ())
            r2 = True
            for u in du.uses[d]:
                j = R.reach_use(du, u, y)
                r2 = r2 and 0 <= j < n and du.defs[j] in du.name_to_defs.get(y, ())
            rows.append((str(d.name), str(y), r1, r2))
            bad += (not r1) + (not r2)
        bad += not ok0
        print(f'{fn.__name__}: R0={ok0} copies={rows}')
    print('OK' if not bad else f'{bad} VIOLATIONS')
    return 1 if bad else 0


if __name__ == '__main__':
    sys.exit(main())
