"""C13 mutation smoke test: each mutant of /repo (scratch copy /tmp/mut_c13) must leave an OPEN obligation.
usage: python3 tools/c13_mutants.py [name-prefix ...]"""
import subprocess, shutil, os, sys
ROOT = os.path.dirname(os.path.dirname(os.path.abspath(__file__)))
VC = 'fpy2/analysis/value_class.py'; UF = 'fpy2/utils/unionfind.py'
M = [
 ('A1 add: inf - inf does not give NaN', VC, "    if a & _INF and b & _INF:\n        out |= _NAN                      # inf - inf", "    if a & _INF and b & _INF:\n        pass", ['VC_add_sound', 'VC_sub_sound', 'VC_engine_add_sound']),
 ('A2 mul: 0 * inf does not give NaN', VC, "        if x & _INF and y & _ZERO:\n            out |= _NAN                  # 0 * inf", "        if x & _INF and y & _ZERO:\n            pass", ['VC_mul_sound', 'VC_engine_mul_sound']),
 ('A3 add: finite + finite cannot cancel', VC, "    if a & _FINITE and b & _FINITE:\n        out |= _ZERO | _FINITE\n    return out", "    if a & _FINITE and b & _FINITE:\n        out |= _FINITE\n    return out", ['VC_add_sound']),
 ('A4 class_of: zero / finite swapped', VC, "return _ZERO if x.is_zero() else _FINITE", "return _FINITE if x.is_zero() else _ZERO", ['VC_class_of']),
 ('A5 _LOGB: logb(0) is a zero', VC, "_LOGB = {_NAN: _NAN, _INF: _INF, _ZERO: _INF,", "_LOGB = {_NAN: _NAN, _INF: _INF, _ZERO: _ZERO,", ['VC_logb_sound']),
 ('A5b _LOGB: logb(finite) never zero', VC, "_FINITE: _ZERO | _FINITE}", "_FINITE: _FINITE}", ['VC_logb_sound']),
 ('A6 _POW_POS_BASE: b ** 0 is a zero', VC, "_ZERO: _FINITE, _FINITE: _FINITE}", "_ZERO: _ZERO, _FINITE: _FINITE}", ['VC_engine_pow_sound']),
 ('A7 _map: exact match instead of overlap', VC, "        if atom & a:\n            out |= res", "        if atom == a:\n            out |= res", ['VC_map_tables']),
 ('A8 add: non-monotone inf rule', VC, "    if a & _INF and b & _INF:\n        out |= _NAN ", "    if a == _INF and b & _INF:\n        out |= _NAN ", ['VC_exact_add']),
 ('A9 mul: one-sided', VC, "    for x, y in ((a, b), (b, a)):", "    for x, y in ((a, b),):", ['VC_exact_mul', 'VC_mul_sound']),
 ('A10 mul: finite * finite may not be finite', VC, "    if a & _FINITE and b & _FINITE:\n        out |= _FINITE\n    return out", "    if a & _FINITE and b & _FINITE:\n        out |= _ZERO\n    return out", ['VC_mul_sound']),
 ('A11 add: empty operand not strict', VC, "    if not (a and b):\n        return _BOT             # an operand nothing reaches produces nothing\n    out = _BOT\n    if (a | b) & _NAN:", "    out = _BOT\n    if (a | b) & _NAN:", ['VC_exact_add']),
 ('U1 _find: cuts x off (parent[x] = x)', UF, "            self._parent[x] = gparent", "            self._parent[x] = x", ['Unionfind__find']),
 ('U2 _find: returns the parent, not the root', UF, "        parent = self._parent[x]\n        while x != parent:", "        parent = self._parent[x]\n        return parent\n        while x != parent:", ['Unionfind__find']),
 ('U3 _find: advances without re-reading the parent (stale parent)', UF, "            x = gparent\n            parent = self._parent[x]", "            x = gparent", ['Unionfind__find']),
 ('U4 _union: attaches y instead of its root', UF, "            self._parent[root_y] = root_x", "            self._parent[y] = root_x", ['Unionfind__union']),
 ('U5 _union: attaches the wrong way round', UF, "            self._parent[root_y] = root_x", "            self._parent[root_x] = root_y", ['Unionfind__union']),
 ('U6 _union: class of y not merged into _sets', UF, "            self._sets[root_x].update(self._sets[root_y])\n", "", ['Unionfind__union']),
 ('U7 _union: stale _sets entry kept', UF, "            del self._sets[root_y]\n", "", ['Unionfind__union']),
 ('U8 _union: returns root of y', UF, "            del self._sets[root_y]\n        return root_x", "            del self._sets[root_y]\n        return root_y", ['Unionfind__union']),
 ('U9 union: arguments swapped (leader of y wins)', UF, "        return self._union(x, y)", "        return self._union(y, x)", ['Unionfind_union']),
 ('U10 find: returns x', UF, "            raise KeyError(x)\n        return self._find(x)", "            raise KeyError(x)\n        return x", ['Unionfind_find']),
 ('U11 add: new element not its own parent set', UF, "            self._sets[x] = {x}\n            return x", "            return x", ['Unionfind_add']),
 ('U12 add: existing element returned as is', UF, "        else:\n            return self._find(x)\n\n    def find", "        else:\n            return x\n\n    def find", ['Unionfind_add']),
 ('R1 representable_classes: NaN probe dropped', VC, "_PROBES = (Float(isnan=True), Float(isinf=True), Float(isinf=True, s=True))", "_PROBES = (Float(isinf=True), Float(isinf=True, s=True))", ['VC_representable_mpfloat_nan']),
 ('R2 _rounded_class: class of the operand instead of the rounded value', VC, "        return class_of(ctx.round(x))", "        ctx.round(x)\n        return class_of(x)", ['VC_representable_mpfloat_nan']),
 ('J1 flag join is checked on the engine model only (no repo code)', VC, "        for phi in self.def_use.phis[stmt]:\n            lhs = self._def_class(self.def_use.defs[phi.lhs])", "        for phi in self.def_use.phis[stmt]:\n            lhs = self._def_class(self.def_use.defs[phi.lhs]) ", ['VC_join_meet']),
]
sel = sys.argv[1:]
for name, f, old, new, contracts in M:
    if sel and not any(name.startswith(x) for x in sel):
        continue
    shutil.rmtree('/tmp/mut_c13', ignore_errors=True)
    os.makedirs('/tmp/mut_c13')
    shutil.copytree('/repo/fpy2', '/tmp/mut_c13/fpy2')
    p = '/tmp/mut_c13/' + f
    s = open(p).read()
    assert s.count(old) == 1, (name, s.count(old))
    open(p, 'w').write(s.replace(old, new))
    for contract in contracts:
        out = subprocess.run(['python3-vt', 'tools/try.py', contract, '--budget', '100', '--cex'], cwd=ROOT, capture_output=True, text=True,
                             env=dict(os.environ, FPY_REPO='/tmp/mut_c13'), timeout=170).stdout
        lines = [l for l in out.split('\n') if 'OPEN' in l or 'UNSUPPORTED' in l or 'CRASH' in l]
        kinds = sorted(set(l.strip().split(':')[0] for l in lines))
        hascex = 'cex:' in out
        print(f'{name} [{contract}]: ' + (f'{len(lines)} x ' + '; '.join(kinds)[:160] if lines else 'SURVIVED (all discharged)') + (' +cex' if hascex else ''))
shutil.rmtree('/tmp/mut_c13', ignore_errors=True)
