"""C13 mutation smoke test: each mutant of /repo (scratch copy /tmp/mut_c13) must leave an OPEN obligation.
usage: python3 tools/c13_mutants.py [name-prefix ...]"""
import subprocess, shutil, os, sys
ROOT = os.path.dirname(os.path.dirname(os.path.abspath(__file__)))
VC = 'fpy2/analysis/value_class.py'; UF = 'fpy2/utils/unionfind.py'
M = [
 ('A1 add: inf - inf does not give NaN', VC, "    if a & _INF and b & _INF:\n        out |= _NAN                      # inf - inf", "    if a & _INF and b & _INF:\n        pass", ['VC_add_sound', 'VC_sub_sound', 'VC_engine_add_sound']),
 ('A2 mul: 0 * inf does not give NaN', VC, "        if x & _INF and y & _ZERO:\n            out |= _NAN                  # 0 * inf", "        if x & _INF and y & _ZERO:\n            pass", ['VC_mul_sound', 'VC_engine_mul_sound']),
 ('A3 add: finite + finite cannot cancel', VC, "    if a & _FINITE and b & _FINITE:\n        out |= _ZERO | _FINITE\n    return out", "    if a & _FINITE and b & _FINITE:\n        out |= _FINITE\n    return out", ['VC_add_sound']),
 ('A4 class_of: zero / finite swapped', VC, "return _ZERO if x.is_zero() else _FINITE", "return _FINITE if x.is_zero() else _ZERO", ['VC_class_of']),
 ('A5 _LOGB: logb(0) is a zero', VC, "_LOGB = {_NAN: _NAN, _INF: _INF, _ZERO: _INF,", "_LOGB = {_NAN: _NAN, _INF: _INF, _ZERO: _ZERO,", ['VC_logb_sound']),
 ('A5b _LOGB: logb(finite) never zero', VC, "_FINITE: _ZERO | _FINITE}", "_FINITE: _FINITE}", ['VC_logb_sound']),
 ('A6 _POW_POS_BASE: b ** 0 is a zero', VC, "_ZERO: _FINITE, _FINITE: _FINITE}", "_ZERO: _ZERO, _FINITE: _FINITE}", ['VC_engine_pow_sound']),
 ('A7 _map: exact match instead of overlap', VC, "        if atom & a:\n            out |= res", "        if atom == a:\n            out |= res", ['VC_map_tables']),
 ('A8 add: non-monotone inf rule', VC, "    if a & _INF and b & _INF:\n        out |= _NAN ", "    if a == _INF and b & _INF:\n        out |= _NAN ", ['VC_exact_add']),
 ('A9 mul: one-sided', VC, "    for x, y in ((a, b), (b, a)):", "    for x, y in ((a, b),):", ['VC_exact_mul', 'VC_mul_sound']),
 ('A10 mul: finite * finite may not be finite', VC, "    if a & _FINITE and b & _FINITE:\n        out |= _FINITE\n    return out", "    if a & _FINITE and b & _FINITE:\n        out |= _ZERO\n    return out", ['VC_mul_sound']),
 ('A11 add: empty operand not strict', VC, "    if not (a and b):\n        return _BOT             # an operand nothing reaches produces nothing\n    out = _BOT\n    if (a | b) & _NAN:", "    out = _BOT\n    if (a | b) & _NAN:", ['VC_exact_add']),
]
sel = sys.argv[1:]
for name, f, old, new, contracts in M:
    if sel and not any(name.startswith(x) for x in sel):
        continue
    shutil.rmtree('/tmp/mut_c13', ignore_errors=True)
    os.makedirs('/tmp/mut_c13')
    shutil.copytree('/repo/fpy2', '/tmp/mut_c13/fpy2')
    p = '/tmp/mut_c13/' + f
    s = open(p).read()
    assert s.count(old) == 1, (name, s.count(old))
    open(p, 'w').write(s.replace(old, new))
    for contract in contracts:
        out = subprocess.run(['python3-vt', 'tools/try.py', contract, '--budget', '100', '--cex'], cwd=ROOT, capture_output=True, text=True,
                             env=dict(os.environ, FPY_REPO='/tmp/mut_c13'), timeout=170).stdout
        lines = [l for l in out.split('\n') if 'OPEN' in l or 'UNSUPPORTED' in l or 'CRASH' in l]
        kinds = sorted(set(l.strip().split(':')[0] for l in lines))
        hascex = 'cex:' in out
        print(f'{name} [{contract}]: ' + (f'{len(lines)} x ' + '; '.join(kinds)[:160] if lines else 'SURVIVED (all discharged)') + (' +cex' if hascex else ''))
shutil.rmtree('/tmp/mut_c13', ignore_errors=True)
