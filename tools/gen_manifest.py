#!/usr/bin/env python3
"""Regenerate MANIFEST.json from the table below (keeps it valid and consistent)."""
import json, os
ROOT = os.path.dirname(os.path.dirname(os.path.abspath(__file__)))
TECH = 'contract-based deductive verification: sidecar contracts on the real functions, VCs generated from the Python AST of /repo, discharged by z3/cvc5; counter-models replayed natively'
COMMON_NOTE = ('trusted: the pyvc VC generator (cross-checked against CPython on sampled inputs every run; must-fail mutants in selftest), z3/cvc5 unsat answers, '
               'the pow2/bit_length axiom schemas (each proved in lean/FpyLemmas.lean against Mathlib), CPython semantics of the verified subset; ')
CHECKS = {
 'C01': ('every function the property depends on in the number core (RoundingMode.to_direction, RealFloat.split/_round_params/_round_increment*/_round_at/round/compare) and the context layer (MPFloat, MPSFloat, MPBFloat, MPFixed, MPBFixed, Exp, Real, EFloat incl. its special-value table, round_params/round_integer, constructors establishing the class invariants, the Fixed/SMFixed/IEEE thin layers) carries a contract taken from the definition of correct rounding (floor/remainder form of the eight modes); VCs are generated for every path from the current source and discharged unbounded in operands, precisions and exponents',
         'RealFloat._tiny_post (tininess after rounding) and efloat._ext_to_mpb_fmt are bounded stand-ins and reported separately; MPBFixedContext._round_at, ExpContext._round_at, _tiny_post and the constructors WITH nan_value/inf_value substitutes are thorough-tier contracts (each needs several hundred seconds; the quick command runs everything else in about 8 minutes); Context._round_prepare coercions and the inherited round/round_at of Fixed/SMFixed/IEEE are not covered; known findings F16, C01-W3-1..6 (constructor validation gaps) are reported as KNOWN-FINDING', 'DESIGN.md §B.3, §5 C01'),
 'C15': ('every SyntaxCheckInstance statement and expression visitor (incl. list-comprehension scoping, tuple bindings, _visit_function, dispatch verified per expression class), _Env.merge/extend, _mark_use and the Reachability visitors are proved (unbounded, symbolic maps/sets/sequences with loop invariants) to implement the definite-assignment / can-complete rules of the language guide, with frame clauses: no visitor mutates the ctx object of its caller',
         'soundness of the rule set w.r.t. execution is assumed; the decorator flow (both checks run on every path) is checked syntactically by tools/c15x_decorator_flow.py, not by the verifier; known finding C15X-1', 'DESIGN.md §B.3, §5 C15'),
 'C17': ('RealFloat.round is proved (unbounded) against the stochastic specification (result is one of the two neighbours, chosen by draw + L >= 2^k with L the mode-rounded distance; representable => unchanged; one draw per rounding) modulo the contract of _round_at_stochastic; round_params of every context family widens the pre-rounding precision by the random bits',
         'the contract of RealFloat._round_at_stochastic itself is only a BOUNDED stand-in in the quick tier (exhaustive native enumeration, bound stated in the evidence; the thorough tier additionally attempts the symbolic proof with a bounded fallback); RNGs are a trusted contract (k uniformly distributed bits, one draw per call)', 'DESIGN.md §B.3, §5 C17'),
 'C19': ('index arithmetic of cursors and edit logs (_forward_stmt with a loop invariant over logs of symbolic length, _forward_block recursion with a termination measure, EditLog.forward, Edit/_overlaps, check_site/_selects_at) and the agreement of LISTING order and VISITING order: sub_exprs/sub_blocks per node class and both default visitors are proved against one reference table, visitor dispatch reaches the method of the same row; proved unbounded',
         'W2 (order preservation under disjoint edits), _record_at, visitors over sequence-valued fields (2 elements) and walk_stmts/walk_exprs (one program shape) are bounded stand-ins; AST resolution facts are uninterpreted (trusted resolve contracts); expression cursors (ExprPath) and SiteRewriter._visit_block are not covered', 'DESIGN.md §B.3, §5 C19'),
}
NA = [
 ('C08', 'program-to-program transform correctness needs FPy operational semantics inside the verifier; not expressible as function-level contracts (DESIGN §6)'),
 ('C09', 'simulation between two program executions (inlining/specialisation/hoisting); no per-call contract carries it (DESIGN §6)'),
 ('C10', 'property is about emitted program text of AST rewriters; emitters outside the contract-expressible subset (DESIGN §6)'),
 ('C11', 'crosses a language boundary (g++/libm); nothing function-local decides it (DESIGN §6)'),
 ('C12', 'needs FPCore and FPy semantics in one logic; translators are emitters (DESIGN §6)'),
 ('C18', 'quantifies over histories and thread schedules; out of reach for per-function contracts (DESIGN §6)'),
]
def main():
    extra = {}
    p = os.path.join(ROOT, 'tools', 'manifest_extra.json')
    if os.path.exists(p):
        extra = json.load(open(p))
    checks = []
    table = dict(CHECKS)
    for k, v in extra.get('checks', {}).items():
        table[k] = tuple(v)
    for pid in sorted(table):
        text, note, ref = table[pid]
        checks.append({
            'property_id': pid, 'quick_cmd': f'./check {pid} --tier quick', 'thorough_cmd': f'./check {pid} --tier thorough',
            'evidence_file': f'evidence/{pid}.json', 'replay_cmd_template': f'./check {pid} --replay {{path}}', 'engine': 'pyvc',
            'level_claimed': {'category': 'proof', 'text': text, 'design_ref': ref},
            'level_note': COMMON_NOTE + note, 'technique': TECH})
    claimed = set(table)
    na = [{'property_id': p_, 'reason': r} for p_, r in NA + [tuple(x) for x in extra.get('not_applicable', [])] if p_ not in claimed]
    all_ids = [f'C{i:02d}' for i in range(1, 21)]
    for pid in all_ids:
        if pid not in claimed and pid not in [n['property_id'] for n in na]:
            na.append({'property_id': pid, 'reason': 'not yet claimed: contracts under construction (see DESIGN.md)'})
    m = {
        'version': 1, 'setup_cmd': './setup.sh',
        'hooks': {'guard': 'FPY_VERIF', 'enable': 'no hooks in /repo: contracts are sidecar files under /verif/contracts; guard name reserved, unused',
                  'baseline_off_cmd': 'cd /repo && /venv/bin/python -m pytest -ra -q -p no:cacheprovider --timeout=900 --continue-on-collection-errors',
                  'source_commits': [], 'add_only': True},
        'engines': [
            {'name': 'pyvc', 'path': 'pyvc/', 'serves_properties': sorted(claimed), 'kind_free_text': 'contract-based deductive verifier for the Python subset of fpy2: ast -> path-split verification conditions -> z3 (then cvc5); sidecar contracts in contracts/, spec functions in spec/'},
            {'name': 'replay', 'path': 'replay.py', 'serves_properties': sorted(claimed), 'kind_free_text': 'native replay of solver counterexamples against the real code under /venv/bin/python, contract evaluated natively'},
            {'name': 'lean-lemmas', 'path': 'lean/', 'serves_properties': sorted(claimed), 'kind_free_text': 'Lean 4 / Mathlib proofs of every pow2/bit_length axiom schema used by pyvc/theory.py'}],
        'checks': checks,
        'notes': ('see DESIGN.md (section B = as built); known findings and repaired defects in known_findings.json; baseline ledger of discharged obligations in '
                  'baseline_obligations.json; seeded property-breaking changes and what catches them in seeded/ and at the end of DESIGN.md; no hooks in /repo '
                  '(hooks.source_commits is empty): the unguarded commits in /repo are the 19 defect repairs whose messages start with "fix:" (listed in DESIGN.md B.4)'),
        'not_applicable': sorted(na, key=lambda x: x['property_id']),
    }
    json.dump(m, open(os.path.join(ROOT, 'MANIFEST.json'), 'w'), indent=1)
    print('claimed', sorted(claimed))
main()
