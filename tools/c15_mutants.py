import subprocess, shutil, os, sys
SC='fpy2/analysis/syntax_check.py'; RE='fpy2/analysis/reachability.py'
M = [
 ('M1 merge: or instead of and', SC, "self.env.get(key, False) and other.env.get(key, False)", "self.env.get(key, False) or other.env.get(key, False)", 'Env_merge'),
 ('M2 merge: terminated self not absorbing', SC, "        if self.terminated:\n            return _Env(other.env)", "        if self.terminated:\n            return _Env(self.env)", 'Env_merge'),
 ('M3 merge: both terminated -> live', SC, "            return _Env(terminated=True)\n        if self.terminated:", "            return _Env()\n        if self.terminated:", 'Env_merge'),
 ('M3b merge: absent = True', SC, "self.env.get(key, False) and other.env.get(key, False)", "self.env.get(key, True) and other.env.get(key, True)", 'Env_merge'),
 ('M4 extend: marks False', SC, "copy.env[var] = True", "copy.env[var] = False", 'Env_extend'),
 ('M5 extend: drops terminated', SC, "copy = _Env(self.env, terminated=self.terminated)", "copy = _Env(self.env)", 'Env_extend'),
 ('M6 _mark_use skips all-paths check', SC, "            if not env[name]:\n                raise FPySyntaxError(f'variable `{name}` not defined along all paths')\n", "", 'SyntaxCheckInstance__mark_use'),
 ('M7 if1 returns body env', SC, "        return env.merge(ift_env)", "        return ift_env", 'SC__visit_if1'),
 ('M8 context merges (sound, precision only)', SC, "        return body_env # no merge", "        return env.merge(body_env)", 'SC__visit_context'),
 ('M8b context always terminated', SC, "        return body_env # no merge", "        return _Env(terminated=True)", 'SC__visit_context'),
 ('M9 while returns body env', SC, "        self._visit_expr(stmt.cond, _Ctx(env, False))\n        return env", "        self._visit_expr(stmt.cond, _Ctx(env, False))\n        return body_env", 'SC__visit_while'),
 ('M10 if returns ift env', SC, "        return ift_env.merge(iff_env)", "        return ift_env", 'SC__visit_if'),
 ('M11 return not terminated', SC, "        return _Env(terminated=True)\n\n    def _visit_pass", "        return ctx.env\n\n    def _visit_pass", 'SC__visit_return'),
 ('M12 assign skips expr', SC, "        env = ctx.env\n        self._visit_expr(stmt.expr, ctx)\n        return self._visit_binding(stmt.target, env)", "        env = ctx.env\n        return self._visit_binding(stmt.target, env)", 'SC__visit_assign'),
 ('M13 indexed_assign skips use check', SC, "        self._mark_use(stmt.var, env)\n", "", 'SC__visit_indexed_assign'),
 ('M14 var ignores missing', SC, "                self._mark_use(e.name, env)\n", "                self._mark_use(e.name, env, ignore_missing=True)\n", 'SC__visit_var'),
 ('M15 binding: name not bound', SC, "            case NamedId():\n                env = env.extend(binding)", "            case NamedId():\n                pass", 'SC__visit_binding'),
 ('M15b assign: binds in body of nothing', SC, "        return self._visit_binding(stmt.target, env)", "        self._visit_binding(stmt.target, env)\n        return _Env(terminated=True)", 'SC__visit_assign'),
 ('M17 FIX for: merge against the env without target', SC, "        body_env = self._visit_block(stmt.body, _Ctx(env, False))\n        return env.merge(body_env)\n\n    def _visit_context", "        body_env = self._visit_block(stmt.body, _Ctx(env, False))\n        return ctx.env.merge(body_env)\n\n    def _visit_context", 'SC__visit_for'),
 ('R1 if1 returns body only', RE, "        body_is_reachable = self._visit_block(stmt.body, ctx)\n        return ctx.is_reachable or body_is_reachable\n\n    def _visit_if(", "        body_is_reachable = self._visit_block(stmt.body, ctx)\n        return body_is_reachable\n\n    def _visit_if(", 'RI_if1'),
 ('R2 if uses and', RE, "return ift_is_reachable or iff_is_reachable", "return ift_is_reachable and iff_is_reachable", 'RI_if'),
 ('R3 context adds entry', RE, "        return body_is_reachable\n\n    def _visit_assert", "        return ctx.is_reachable or body_is_reachable\n\n    def _visit_assert", 'RI_context'),
 ('R4 return completes', RE, "        self.ret_stmts.add(stmt)\n        return False", "        self.ret_stmts.add(stmt)\n        return ctx.is_reachable", 'RI_return'),
 ('R5 assign always completes', RE, "    def _visit_assign(self, stmt: Assign, ctx: _ReachabilityCtx) -> bool:\n        # OUT[s] = IN[s]\n        return ctx.is_reachable", "    def _visit_assign(self, stmt: Assign, ctx: _ReachabilityCtx) -> bool:\n        # OUT[s] = IN[s]\n        return True", 'RI_simple'),
 ('R6 analyze: inverted fallthrough check', RE, "if check_no_fallthrough and analysis.has_fallthrough:", "if check_no_fallthrough and not analysis.has_fallthrough:", 'Reachability_analyze'),
 ('R7 instance.analyze starts unreachable', RE, "    @staticmethod\n    def default():\n        return _ReachabilityCtx(True)", "    @staticmethod\n    def default():\n        return _ReachabilityCtx(False)", 'RI_analyze'),
 ('R8 while returns entry only', RE, "        body_is_reachable = self._visit_block(stmt.body, ctx)\n        return ctx.is_reachable or body_is_reachable\n\n    def _visit_for", "        body_is_reachable = self._visit_block(stmt.body, ctx)\n        return ctx.is_reachable\n\n    def _visit_for", 'RI_while'),
 ('R9 for returns body only', RE, "        body_is_reachable = self._visit_block(stmt.body, ctx)\n        return ctx.is_reachable or body_is_reachable\n\n    def _visit_context", "        body_is_reachable = self._visit_block(stmt.body, ctx)\n        return body_is_reachable\n\n    def _visit_context", 'RI_for'),
 ('B1 block: claims terminated', SC, "            env = self._visit_statement(stmt, _Ctx(env, False))\n        return env", "            env = self._visit_statement(stmt, _Ctx(env, False))\n        return _Env(terminated=True)", 'SC__visit_block'),
 ('B3 block: terminated env revived', SC, "            env = self._visit_statement(stmt, _Ctx(env, False))\n        return env", "            env = self._visit_statement(stmt, _Ctx(env, False))\n            env = _Env(env.env)\n        return env", 'SC__visit_block'),
 ('D1 dispatch: IfStmt -> _visit_if1', 'fpy2/ast/visitor.py', 'IfStmt: "_visit_if",', 'IfStmt: "_visit_if1",', 'SC__visit_statement'),
 ('D2 dispatch: ReturnStmt -> _visit_pass', 'fpy2/ast/visitor.py', 'ReturnStmt: "_visit_return",', 'ReturnStmt: "_visit_pass",', 'SC__visit_statement'),
 ('R10 block: ctx not threaded', RE, "            ctx = _ReachabilityCtx(is_reachable)\n", "            ctx = _ReachabilityCtx(True)\n", 'RI__visit_block'),
 ('R11 statement returns entry', RE, "        self.has_exit[stmt] = is_reachable\n        return is_reachable", "        self.has_exit[stmt] = is_reachable\n        return ctx.is_reachable", 'RI__visit_statement'),
 ('R12 dispatch: ReturnStmt -> _visit_pass', 'fpy2/ast/visitor.py', 'ReturnStmt: "_visit_return",', 'ReturnStmt: "_visit_pass",', 'RI__visit_statement'),
]
sel = sys.argv[1:]
for name, f, old, new, contract in M:
    if sel and not any(name.startswith(x) for x in sel): continue
    shutil.rmtree('/tmp/mut_c15', ignore_errors=True)
    os.makedirs('/tmp/mut_c15')
    shutil.copytree('/repo/fpy2', '/tmp/mut_c15/fpy2')
    p = '/tmp/mut_c15/' + f
    s = open(p).read()
    assert s.count(old) == 1, (name, s.count(old))
    open(p, 'w').write(s.replace(old, new))
    out = subprocess.run(['python3-vt', 'tools/try.py', contract, '--budget', '100', '--cex'], cwd='/tmp/va_c15', capture_output=True, text=True,
                         env=dict(os.environ, FPY_REPO='/tmp/mut_c15'), timeout=170).stdout
    lines = [l for l in out.split('\n') if 'OPEN' in l or 'UNSUPPORTED' in l or 'CRASH' in l]
    hascex = 'cex:' in out
    print(f'{name} [{contract}]: ' + ('; '.join(l.strip()[:110] for l in lines) if lines else 'SURVIVED (all discharged)') + (' +cex' if hascex else ''))
shutil.rmtree('/tmp/mut_c15', ignore_errors=True)
