#!/usr/bin/env python3
"""
Evaluate one seeded change: confirm it (demo passes on the clean tree, fails on
the changed tree, the relevant tests still pass with the change), then run the
registered quick check(s) against it and record what was detected.

  python3 tools/eval_seed.py <PROP> <k> [--mode worktree|repo] [--checks C01,C17] [--full-suite]

mode worktree (default): the patch is applied in the scratch worktree /tmp/seed_<PROP>
  and the checks run with FPY_REPO pointing there;
mode repo: the patch is applied to /repo itself (git -C /repo apply), the checks run,
  and it is undone straight afterwards (git -C /repo checkout -- .).
Writes /verif/seeded/<PROP>-<k>/{patch.diff,demo.py,meta.json}.
"""
import argparse
import json
import os
import shutil
import subprocess
import sys
import time

ROOT = os.path.dirname(os.path.dirname(os.path.abspath(__file__)))
TESTS = {'C01': 'tests/unit/number', 'C02': 'tests/unit/number tests/unit/test_ops.py tests/unit/math',
         'C03': 'tests/unit/number tests/unit/math tests/unit/test_ops.py', 'C05': 'tests/unit/number',
         'C06': 'tests/unit/utils tests/unit/interpret tests/unit/ast', 'C14': 'tests/unit/analysis',
         'C15': 'tests/unit/analysis tests/unit/interpret', 'C16': 'tests/unit/number', 'C17': 'tests/unit/number',
         'C19': 'tests/unit/transform tests/unit/strategies', 'C20': 'tests/unit/libraries tests/unit/number',
         'C04': 'tests/unit/interpret', 'C07': 'tests/unit/transform tests/unit/strategies', 'C13': 'tests/unit/analysis'}


def sh(cmd, cwd=None, env=None, timeout=3600):
    p = subprocess.run(cmd, shell=True, cwd=cwd, env=env, capture_output=True, text=True, timeout=timeout)
    return p.returncode, (p.stdout + p.stderr)


def main():
    ap = argparse.ArgumentParser()
    ap.add_argument('prop')
    ap.add_argument('k')
    ap.add_argument('--mode', default='worktree')
    ap.add_argument('--checks', default=None)
    ap.add_argument('--full-suite', action='store_true')
    ap.add_argument('--skip-confirm', action='store_true')
    ap.add_argument('--only', default=None, help='comma list of contracts: only those are run (the others cannot see the change)')
    a = ap.parse_args()
    prop, k = a.prop, a.k
    src = f'/tmp/seed_{prop}_out/{k}'
    wt = f'/tmp/seed_{prop}'
    out = os.path.join(ROOT, 'seeded', f'{prop}-{k}')
    os.makedirs(out, exist_ok=True)
    if os.path.isdir(src):          # fresh output of a seeding sub-agent; otherwise the seed already lives in seeded/
        for f in ('patch.diff', 'demo.py'):
            shutil.copy(os.path.join(src, f), os.path.join(out, f))
    created_wt = False
    if not os.path.isdir(wt):       # scratch worktree of /repo (removed again at the end)
        sh(f'git -C /repo worktree add --detach {wt} HEAD')
        created_wt = True
    meta_src = json.load(open(os.path.join(src, 'meta.json'))) if os.path.exists(os.path.join(src, 'meta.json')) else {}
    if not meta_src and os.path.exists(os.path.join(out, 'meta.json')):
        prev_meta = json.load(open(os.path.join(out, 'meta.json')))
        meta_src = {'summary': prev_meta.get('breaks'), 'needs': prev_meta.get('needs'), 'functions_changed': prev_meta.get('functions_changed'), 'ran': prev_meta.get('author_ran')}
    meta = {'property': prop, 'breaks': meta_src.get('summary'), 'needs': meta_src.get('needs'),
            'functions_changed': meta_src.get('functions_changed'), 'author_ran': meta_src.get('ran'), 'confirmed': {}, 'detection': {}}
    env = dict(os.environ, PYTHONPATH=wt)
    env.pop('FPY_REPO', None)
    patch = os.path.join(out, 'patch.diff')
    demo = os.path.join(out, 'demo.py')
    sh('git checkout -- . && git clean -fdq fpy2', cwd=wt)
    if not a.skip_confirm:
        rc0, o0 = sh(f'/venv/bin/python {demo}', cwd=wt, env=env, timeout=900)
        meta['confirmed']['demo_on_clean_tree_exit'] = rc0
        rc, o = sh(f'git apply {patch}', cwd=wt)
        meta['confirmed']['patch_applies'] = rc == 0
        rc1, o1 = sh(f'/venv/bin/python {demo}', cwd=wt, env=env, timeout=900)
        meta['confirmed']['demo_on_changed_tree_exit'] = rc1
        meta['confirmed']['demo_failure_tail'] = o1[-400:]
        t0 = time.time()
        tests = 'tests' if a.full_suite else TESTS.get(prop, 'tests/unit/number')
        rct, ot = sh(f'/venv/bin/python -m pytest -q -p no:cacheprovider -x {tests}', cwd=wt, env=env, timeout=5400)
        meta['confirmed']['tests_with_change'] = {'which': tests, 'exit': rct, 'tail': ot.strip().split('\n')[-1][-200:], 'secs': round(time.time() - t0)}
        meta['confirmed']['ok'] = (rc0 == 0 and rc == 0 and rc1 != 0 and rct == 0)
    else:
        prev = os.path.join(out, 'meta.json')
        if os.path.exists(prev):
            meta['confirmed'] = json.load(open(prev)).get('confirmed', {})
        sh(f'git apply {patch}', cwd=wt)
    checks = (a.checks.split(',') if a.checks else [prop])
    only = (' --only ' + ' '.join(a.only.split(','))) if a.only else ''
    for cid in checks:
        t0 = time.time()
        if a.mode == 'repo':
            sh('git checkout -- .', cwd=wt)
            rc, o = sh(f'git -C /repo apply {patch}')
            if rc != 0:
                meta['detection'][cid] = {'error': 'patch does not apply to /repo: ' + o[-300:]}
                continue
            try:
                rcc, oc = sh(f'./check {cid} --tier quick{only}', cwd=ROOT, env=dict(os.environ, PYVC_MAX_SECONDS='1500'), timeout=7200)
            finally:
                sh('git -C /repo checkout -- .')
        else:
            rcc, oc = sh(f'./check {cid} --tier quick{only}', cwd=ROOT, env=dict(os.environ, FPY_REPO=wt, PYVC_MAX_SECONDS='1500'), timeout=7200)
        lines = [l for l in oc.split('\n') if l.startswith('VIOLATION') or l.startswith('UNSUPPORTED') or l.startswith('CRASH') or l.startswith('UNDECIDED')]
        summ = [l for l in oc.split('\n') if l.startswith(cid + ':')]
        meta['detection'][cid] = {'exit': rcc, 'detected': rcc == 1 and any(l.startswith('VIOLATION') for l in lines),
                                  'lines': [l[:300] for l in lines[:8]], 'summary': summ[:1], 'secs': round(time.time() - t0), 'mode': a.mode, 'only': a.only}
        # keep the evidence of the unchanged tree: re-running the check later restores it
    sh('git checkout -- . && git clean -fdq fpy2', cwd=wt)
    if created_wt:
        sh(f'git -C /repo worktree remove --force {wt}')
    json.dump(meta, open(os.path.join(out, 'meta.json'), 'w'), indent=1)
    print(json.dumps({'seed': f'{prop}-{k}', 'confirmed': meta['confirmed'].get('ok'), 'detection': {c: d.get('detected') for c, d in meta['detection'].items()},
                      'exit': {c: d.get('exit') for c, d in meta['detection'].items()}}))


if __name__ == '__main__':
    main()
