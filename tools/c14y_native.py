#!/venv/bin/python
"""
Native cross-check of the C14y contracts (contracts/c14y_implied.py) on the real fpy2:

  * runs format inference on a few FPy programs whose `if` conditions combine not / and / or / comparisons,
    records every call `_implied(cond, truth)` (top-level and recursive) with its result,
  * evaluates the contract's `post` NATIVELY for every recorded call under many valuations of the variables
    (NaN, infinities, signed zeros, dyadics around the literals): the ghosts `holds`, `val_*`, `grid` are given
    their intended meaning (an independent evaluator of the condition; the sampled value of a definition).

Exit status 0 = every clause held for every call and valuation.   /venv/bin/python tools/c14y_native.py
"""
import itertools
import os
import random
import sys
from fractions import Fraction

ROOT = os.path.dirname(os.path.dirname(os.path.abspath(__file__)))
sys.path.insert(0, ROOT)

import fpy2 as fp
from fpy2 import Float, RealFloat
from fpy2.ast.fpyast import And, Compare, CompareOp, Not, Or, RationalVal, Var
from fpy2.analysis.format_infer.analysis import FormatInfer, _FormatInferInstance

import speclib
from contracts.c14y_implied import _implied_post


@fp.fpy
def p1(x: fp.Real, y: fp.Real):
    if x < 4 and y > -2:
        z = x
    else:
        z = y
    return z


@fp.fpy
def p2(x: fp.Real, y: fp.Real):
    if not (x < 1 and y >= -2) or x >= 8:
        z = x
    else:
        z = y
    return z


@fp.fpy
def p3(x: fp.Real, y: fp.Real):
    if not (x > 3 or y > 0.5 or not (x >= -1)):
        z = x
    else:
        z = y
    return z


@fp.fpy
def p4(x: fp.Real, y: fp.Real):
    if 2 > x and (not (y != 0)) and x == x:
        z = x
    else:
        z = y
    return z


@fp.fpy
def p5(x: fp.Real, y: fp.Real):
    if -1 < x < 1 or not (0 <= y):
        z = x
    else:
        z = y
    return z


@fp.fpy
def p6(x: fp.Real, y: fp.Real):
    # the else arm knows only that the conjunction FAILED: nothing about x or y alone
    if x > 4 and y < -2:
        z = x
    else:
        z = y
    return z


@fp.fpy
def p7(x: fp.Real, y: fp.Real):
    # the then arm knows only that the disjunction HOLDS
    if x <= 4 or y >= -2 or not (x < 16):
        z = x
    else:
        z = y
    return z


PROGRAMS = [p1, p2, p3, p4, p5, p6, p7]

CALLS = []
_orig = _FormatInferInstance._implied


def _rec(self, cond, truth):
    r = _orig(self, cond, truth)
    CALLS.append((self, cond, truth, list(r)))
    return r


_FormatInferInstance._implied = _rec

SPECIALS = [Float(isnan=True), Float(isinf=True), Float(isinf=True, s=True), Float(c=0, exp=0), Float(c=0, exp=0, s=True)]


def sample_values(rng):
    vals = list(SPECIALS)
    for c in (-8, -4, -3, -2, -1, 0, 0.5, 1, 2, 3, 4, 8):
        for dlt in (Fraction(0), Fraction(1, 4), Fraction(-1, 4)):
            q = Fraction(c) + dlt
            vals.append(Float.from_rational(q) if hasattr(Float, 'from_rational') else Float.from_float(float(q)))
    for _ in range(6):
        vals.append(Float(c=rng.randrange(1, 1 << 12), exp=rng.randrange(-12, 6), s=rng.random() < 0.5))
    return vals


def cmp_native(op, a, b):
    """IEEE 754 comparison of two values (Float or Fraction)"""
    def special(v):
        return isinstance(v, Float) and (v.isnan or v.isinf)
    if (isinstance(a, Float) and a.isnan) or (isinstance(b, Float) and b.isnan):
        return op == CompareOp.NE
    def key(v):
        if isinstance(v, Float) and v.isinf:
            return (-1 if v.s else 1, Fraction(0))
        return (0, v.as_rational() if isinstance(v, Float) else Fraction(v))
    ka, kb = key(a), key(b)
    return {CompareOp.LT: ka < kb, CompareOp.LE: ka <= kb, CompareOp.GE: ka >= kb, CompareOp.GT: ka > kb,
            CompareOp.EQ: ka == kb, CompareOp.NE: ka != kb}[op]


def evaluate(inst, e, sigma):
    if isinstance(e, Not):
        return not evaluate(inst, e.arg, sigma)
    if isinstance(e, And):
        return all(evaluate(inst, a, sigma) for a in e.args)
    if isinstance(e, Or):
        return any(evaluate(inst, a, sigma) for a in e.args)
    if isinstance(e, Compare):
        vs = [value(inst, a, sigma) for a in e.args]
        return all(cmp_native(op, vs[i], vs[i + 1]) for i, op in enumerate(e.ops))
    raise NotImplementedError(type(e).__name__)


def value(inst, e, sigma):
    if isinstance(e, Var):
        return sigma[inst.def_use.find_def_from_use(e)]
    if isinstance(e, RationalVal):
        return e.as_rational()
    raise NotImplementedError(type(e).__name__)


def vars_of(e, acc):
    if isinstance(e, Var):
        acc.append(e)
    for a in getattr(e, 'args', ()):
        vars_of(a, acc)
    return acc


def main():
    rng = random.Random(14)
    for p in PROGRAMS:
        FormatInfer.analyze(p.ast)
    if not CALLS:
        print('no _implied calls recorded')
        return 2
    g = -64
    checked = violated = nonempty = 0
    for inst, cond, truth, result in CALLS:
        defs = []
        for v in vars_of(cond, []):
            d = inst.def_use.find_def_from_use(v)
            if d not in defs:
                defs.append(d)
        nonempty += bool(result)
        vals = sample_values(rng)
        combos = itertools.product(vals, repeat=len(defs)) if len(defs) <= 2 else \
            (tuple(rng.choice(vals) for _ in defs) for _ in range(3000))
        for combo in combos:
            sigma = dict(zip(defs, combo))
            speclib.GHOST.update({
                'grid': lambda _z: g,
                'c14y_holds': lambda c: evaluate(inst, c, sigma),
                'c14y_wf': lambda c: True,
                'c14x_val_nan': lambda d: int(sigma[d].isnan),
                'c14x_val_inf': lambda d: int(sigma[d].isinf),
                'c14x_val_s': lambda d: int(sigma[d].s),
                'c14x_val_e': lambda d: sigma[d].exp if not (sigma[d].isnan or sigma[d].isinf) else 0,
                'c14x_val_c': lambda d: sigma[d].c if not (sigma[d].isnan or sigma[d].isinf) else 0,
            })
            clauses = _implied_post(cond, truth, result)
            checked += 1
            bad = [k for k, v in clauses.items() if not v]
            if bad:
                violated += 1
                if violated <= 5:
                    print('VIOLATED', bad, 'cond =', cond.format() if hasattr(cond, 'format') else cond, 'truth =', truth,
                          'sigma =', {str(d.name): str(v) for d, v in sigma.items()},
                          'result =', [(str(d.name), str(f)) for d, f in result])
    print(f'{len(CALLS)} recorded _implied calls ({nonempty} with refinements), {checked} (call, valuation) pairs, {violated} violated')
    return 1 if violated else 0


if __name__ == '__main__':
    sys.exit(main())
