#!/usr/bin/env python3
"""costs.json: measured wall seconds per (contract, case) from the evidence files of the last runs.
Only a scheduling hint (longest jobs first, so that a quick run has no long tail); never affects a verdict."""
import glob, json, os
ROOT = os.path.dirname(os.path.dirname(os.path.abspath(__file__)))
p = os.path.join(ROOT, 'costs.json')
costs = json.load(open(p)) if os.path.exists(p) else {}
for f in glob.glob(os.path.join(ROOT, 'evidence', '*.json')):
    e = json.load(open(f))
    for x in e.get('coverage', {}).get('functions_under_contract', []):
        costs[f"{x['contract']}[{x['case']}]"] = round(x['wall_s'], 1)
json.dump(costs, open(p, 'w'), indent=0, sort_keys=True)
print(len(costs), 'entries')
