#!/usr/bin/env python3
"""Print the 'Seeded changes' markdown table of DESIGN.md from seeded/*/meta.json."""
import glob, json, os
ROOT = os.path.dirname(os.path.dirname(os.path.abspath(__file__)))
NOTES = json.load(open(os.path.join(ROOT, 'seeded', 'notes.json'))) if os.path.exists(os.path.join(ROOT, 'seeded', 'notes.json')) else {}
print('| seed | function changed | what breaks | quick check | obligation(s) that fail | remark |')
print('|---|---|---|---|---|---|')
for d in sorted(glob.glob(os.path.join(ROOT, 'seeded', '*', 'meta.json'))):
    m = json.load(open(d)); s = os.path.basename(os.path.dirname(d))
    fn = (m.get('functions_changed') or ['?'])[0].split('::')[-1].split(':')[-1]
    fn = fn.replace('fpy2.transform.utils.', '').replace('fpy2.transform.path.', '')
    what = (m.get('breaks') or '').split('. ')[0][:170].replace('|', '/')
    det = m['detection']
    q = det.get(m['property'], {})
    verdict = 'caught' if q.get('detected') else ('caught by thorough tier only' if det.get(m['property'] + '_thorough', {}).get('detected') else 'MISSED')
    lines = (q.get('lines') if q.get('detected') else det.get(m['property'] + '_thorough', {}).get('lines')) or []
    obl = []
    for l in lines:
        if 'replay=' not in l:
            continue
        f = l.split('replay=')[1].split()[0].split('/')[-1]
        tail = ' (no input)' if 'no-failing-input-found' in l else ''
        f = f.replace('.noinput.json', '').rsplit('.json', 1)[0]
        f = f.rsplit('.', 1)[0] if f.rsplit('.', 1)[-1].isdigit() else f
        if f + tail not in obl:
            obl.append(f + tail)
    print(f"| {s} | `{fn}` | {what} | {verdict} | {'; '.join('`' + o[:80] + '`' for o in obl[:3])} | {NOTES.get(s, '')} |")
