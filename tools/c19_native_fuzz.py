"""Native cross-check (run with /venv/bin/python): the C19 contracts, evaluated natively,
agree with the real fpy2 code on random edit logs -- the contracts are valid under both semantics."""
import sys, random
import os
sys.path.insert(0, os.path.dirname(os.path.dirname(os.path.abspath(__file__)))); sys.path.insert(0, os.environ.get('FPY_REPO', '/repo'))
import speclib
from fpy2.transform.path import FuncBody, SubBlock, StmtPath
from fpy2.transform.cursor import Edit, _forward_stmt, _forward_block, _overlaps
from fpy2.transform.error import TransformReferenceError
from fpy2.transform.path import beneath
import contracts.c19_forward as F, contracts.c19_edits as E

rnd = random.Random(1)
blocks = [FuncBody(), SubBlock(StmtPath(FuncBody(), 1), 'body'), SubBlock(StmtPath(FuncBody(), 2), 'ift'),
          SubBlock(StmtPath(SubBlock(StmtPath(FuncBody(), 1), 'body'), 0), 'body')]
def chk(C, fn, args):
    try:
        res = fn(**args); exc = None
    except Exception as e:
        res = None; exc = type(e).__name__
    rz = C.raises(None, **{k: v for k, v in args.items() if k in C.raises.__code__.co_varnames})
    if exc is not None:
        assert rz.get(exc), (C.__name__, 'unexpected raise', exc, args)
        return
    for k, v in rz.items():
        assert not v, (C.__name__, 'should have raised', k, args)
    post = C.post(None, **args, result=res)
    bad = [k for k, v in post.items() if not v]
    assert not bad, (C.__name__, bad, args, res)
n = 0
for _ in range(4000):
    edits = tuple(Edit(rnd.choice(blocks), rnd.randrange(4), rnd.randrange(3), rnd.randrange(3)) for _ in range(rnd.randrange(4)))
    path = StmtPath(rnd.choice(blocks), rnd.randrange(6))
    chk(F.forward_stmt, _forward_stmt, dict(path=path, edits=edits, leaf=path))
    chk(F.forward_block, _forward_block, dict(block=path.parent, edits=edits, leaf=path))
    if len(edits) >= 2:
        chk(E.overlaps, _overlaps, dict(a=edits[0], b=edits[1]))
    sp = range(rnd.randrange(3), rnd.randrange(5))
    chk(E.beneath_, beneath, dict(path=rnd.choice([path, path.parent]), block=rnd.choice(blocks), span=sp))
    n += 1
print('native agreement on', n, 'random cases')
