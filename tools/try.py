#!/usr/bin/env python3-vt
"""
Try one contract (all its cases, or one) with a time budget and print every
obligation that is not discharged, with the solver status, the refutation
status and (if any) the counterexample.

  python3-vt tools/try.py <ContractName> [--case N] [--budget 120] [--timeout 10000] [-v] [--no-solve]

Contracts are found in every module of /verif/contracts.  FPY_REPO selects the
source tree (default /repo) -- point it at a scratch copy to test mutations.
"""
import argparse
import json
import os
import sys
import time

ROOT = os.path.dirname(os.path.dirname(os.path.abspath(__file__)))
sys.path.insert(0, ROOT)


def main():
    ap = argparse.ArgumentParser()
    ap.add_argument('name')
    ap.add_argument('--case', type=int, default=None)
    ap.add_argument('--budget', type=float, default=120)
    ap.add_argument('--timeout', type=int, default=10000)
    ap.add_argument('-v', action='store_true')
    ap.add_argument('--no-solve', action='store_true', help='explore paths only (count paths / find unsupported constructs)')
    ap.add_argument('--cex', action='store_true', help='print counterexamples in full')
    a = ap.parse_args()
    os.environ['PYVC_MAX_SECONDS'] = str(a.budget)
    from pyvc.check import contract_modules
    from pyvc.run import make_explorer
    ex = make_explorer(contract_modules(), timeout_ms=a.timeout)
    if a.no_solve:
        ex._discharge = lambda *x, **k: ('unsat', 0.0, 'skip', None)
        ex.discharge = lambda *x, **k: ('unsat', 0.0, 'skip', None)
    names = [n for n, c in ex.contracts.items() if n == a.name or c.short == a.name]
    if not names:
        print('no such contract; available:', ', '.join(sorted(ex.contracts)))
        return 3
    rc = 0
    for name in names:
        c = ex.contracts[name]
        info = ex.index.find_function(c.target) if c.target else None
        cases = ex.cases(c, info)
        for i, case in enumerate(cases):
            if a.case is not None and i != a.case:
                continue
            r = ex.verify(name, case)
            nopen = sum(1 for o in r['obligations'].values() if o['open'])
            print(f"{name}[{i}:{r['case']}] paths={r['paths']} explored={r['explored']} obligations={len(r['obligations'])} "
                  f"open={nopen} wall={r['wall_s']}s outcomes={r['outcomes']}")
            for u in r['unsupported'][:5]:
                print('   UNSUPPORTED:', u)
                rc = 2
            for u in r['crashes'][:5]:
                print('   CRASH:', u)
                rc = 3
            for k, o in r['obligations'].items():
                if o['open']:
                    rc = max(rc, 1)
                    print(f"   OPEN {k}: {len(o['open'])}/{o['paths']} path-queries  ({o['secs']}s)")
                    for e in o['open'][:3]:
                        print(f"        solver={e['status']} refute={e.get('refute_status')} outcome={e['outcome']} trace(last)={e['trace'][-6:]}")
                        if e.get('cex') and (a.cex or a.v):
                            print('        cex:', json.dumps(e['cex']['args'])[:1500], 'ghost:', e['cex']['ghost'])
                elif a.v:
                    print(f"   ok   {k}: {o['paths']} path-queries {o['secs']}s {o['backends']}" + (f" bounded={o['bounded']}" if o.get('bounded') else ''))
            if a.v:
                print('   inlined:', r['inlined'])
                print('   modular:', r['modular'])
    return rc


if __name__ == '__main__':
    sys.exit(main())
