"""
speclib: the vocabulary of contract and spec files.

This module is the *native* (CPython) meaning of the vocabulary; the symbolic
interpreter (pyvc.intrinsics `s_*`) gives the same names their SMT meaning.
Contract/spec files are plain Python: under /venv/bin/python they run against
the real fpy2 objects (replay, runtime contract checking); under pyvc their AST
is executed symbolically.
"""
from fractions import Fraction


class Contract:
    """Base of a function contract (see DESIGN.md §2.3)."""


class Lemma:
    """Base of a lemma: pre => post over spec functions, no target code."""


_INVARIANTS = {}


def invariant(qualname):
    def deco(fn):
        _INVARIANTS[qualname] = fn
        return fn
    return deco


def opaque(fn):
    """
    Marks a spec function over scalars whose applications the verifier keeps folded: F(args) plus the
    definitional fact F(args) == body.  Natively the function itself.
    """
    return fn


def pow2(k):
    if k < 0:
        raise ValueError('pow2 of a negative exponent')
    return 1 << k


def bl(c):
    if c < 0:
        raise ValueError('bl of a negative integer')
    return c.bit_length()


def ipow(b, e):
    return b ** e


def implies(a, b):
    return (not a) or bool(b)


def iff(a, b):
    return bool(a) == bool(b)


def xor(a, b):
    return bool(a) != bool(b)


def ite(c, a, b):
    return a if c else b


def case_split(*conds):
    """proof hint: fork the symbolic path on every condition while *verifying* the enclosing contract
    (ignored where the contract is used modularly); True natively"""
    return True


def forall_range(lo, hi, fn):
    return all(fn(i) for i in range(lo, hi))


def cls_name(v):
    return type(v).__name__


def same_obj(a, b):
    return a is b


def fdiv(a, b):
    return a // b


def fmod(a, b):
    return a % b


def to_real(a):
    return Fraction(a)


def rdiv(a, b):
    return Fraction(a) / Fraction(b)


def hashq(q):
    """the hash of the rational number q: CPython hashes equal numbers of int / Fraction / float type equally"""
    return hash(Fraction(q))

def abstract(name, native_fn, *args):
    """
    abstract predicate `name` over scalars and (abstract) objects: natively `native_fn(*args)`
    decides it on the real objects; symbolically it is an uninterpreted Bool function of the
    arguments (objects contribute their identity), so a contract that mentions it holds for
    every interpretation, i.e. for every concrete context family.
    """
    return bool(native_fn(*args))


def abstract_int(name, native_fn, *args):
    """as `abstract`, but an int-valued function"""
    return int(native_fn(*args))


# ---------------------------------------------------------------------------
# FPy dialect (C20): native meaning on real fpy2 objects; pyvc/fpydialect.py gives the symbolic one

def fpy_val(x):
    """exact real value of an FPy result (Float -> Fraction); tuples elementwise; booleans unchanged"""
    if isinstance(x, tuple):
        return tuple(fpy_val(v) for v in x)
    if isinstance(x, bool):
        return x
    if hasattr(x, 'as_rational'):
        return x.as_rational()
    return Fraction(x)


def fpy_rnd(ctx, v):
    """rnd(ctx, v): the exact real v rounded once under ctx (finite results only)"""
    r = ctx.round(Fraction(v))
    if r.is_nar():
        raise ValueError('fpy_rnd: non-finite rounded result')
    return r.as_rational()


def fpy_finite(ctx, v):
    """is rnd(ctx, v) finite?  (symbolically: values are finite reals, so True)"""
    try:
        return not ctx.round(Fraction(v)).is_nar()
    except (ValueError, OverflowError):
        return False


def fpy_rne(v, digits):
    """v rounded to nearest-even at `digits` significant binary digits, unbounded exponent"""
    import fpy2 as fp
    return fp.MPFloatContext(int(digits), fp.RM.RNE).round(Fraction(v)).as_rational()


def fpy_rnd_mode(v, digits, mode):
    """v rounded at `digits` significant binary digits (unbounded exponent) under the fpy2 rounding mode named `mode`
    ('RNE', 'RNA', 'RTP', 'RTN', 'RTZ', 'RAZ', 'RTO', 'RTE'); symbolically pyvc/fpyround.py"""
    import fpy2 as fp
    return fp.MPFloatContext(int(digits), getattr(fp.RM, mode)).round(Fraction(v)).as_rational()


def fpy_operand(m, e):
    return Fraction(m) * Fraction(2) ** e


def fpy_pow2(n):
    return Fraction(2) ** int(Fraction(n))


def fpy_is_int(v):
    return Fraction(v).denominator == 1


GHOST = {}


def ghost(name, *args):
    """native meaning of a ghost function: supplied by the replay harness"""
    return GHOST[name](*args)


def recursive(fn):
    """A spec function defined by well-founded recursion (it must terminate natively).
    pyvc: an uninterpreted function whose defining equation is assumed, unfolded
    once, at every application occurring in the proof."""
    return fn


def uninterpreted(fn):
    """A spec function pyvc treats as an uninterpreted function of its arguments
    (natively its body runs): for facts outside the verified subset (AST resolution)."""
    return fn
def ghost_pred(name, *args):
    """native meaning of a ghost predicate (bool result): supplied by the replay harness"""
    return bool(GHOST[name](*args))


def ghost_key(name, kname, *args):
    """ghost function whose result is a key of class `kname` (native: supplied by the replay harness)"""
    return GHOST[name](*args)


def map_at(m, k):
    """total read of a dict for specs: m[k] where present (unspecified otherwise; use under `k in m`)"""
    return m.get(k, k)


def rel_in(m, k):
    """k is a key of the dict-of-sets m"""
    return k in m


def rel_has(m, k, e):
    """k is a key of the dict-of-sets m and e is in m[k]"""
    return k in m and e in m[k]


KEY_UNIVERSE = []
"""finite universe of keys for the native meaning of `forall_keys`: the replay harness fills it with
every key occurring in the inputs plus a few extra"""


KEY_ALIASES = {'Definition': ('AssignDef', 'PhiDef'), 'UseSite': ('Var', 'IndexedAssign', 'Call'),
               'DefSite': ('FuncDef', 'Argument', 'Assign', 'IndexedAssign', 'ForStmt', 'ContextStmt', 'ListComp')}
"""key sorts named after a type alias (C07): the classes of their members"""


def _key_has_class(k, kname):
    names = KEY_ALIASES.get(kname, (kname,))
    return any(c.__name__ in names for c in type(k).__mro__)


def forall_keys(kname, fn):
    """for all keys k of class `kname`: fn(k).  Symbolic: a z3 quantifier over the key sort."""
    return all(fn(k) for k in list(KEY_UNIVERSE) if _key_has_class(k, kname))


# abstract nodes (C07, pyvc/absnodes.py): total accessors
def key_attr(k, attr):
    """k.attr, None when the object has no such attribute"""
    return getattr(k, attr, None)


def key_isa(k, cname):
    """is k an instance of the class called cname"""
    return any(c.__name__ == cname for c in type(k).__mro__)


def set_map_has(m, k, u):
    """k in m and u in m[k]"""
    return k in m and u in m[k]


def map_val(m, k):
    """m[k], None when absent"""
    return m.get(k)


def forall_ints(fn):
    """for all integers i: fn(i).  Symbolic: a z3 quantifier; native: a finite window (sanity only)."""
    return all(fn(i) for i in range(-2, 34))


def seq_at(seq, i):
    """total element access (None outside the range)"""
    return seq[i] if 0 <= i < len(seq) else None


def seq_len(seq):
    return len(seq)


def pair_snd_at(seq, i):
    """second component of pair i of a sequence of pairs (Call.kwargs), None outside the range"""
    return seq[i][1] if 0 <= i < len(seq) else None
# ---------------------------------------------------------------------------
# numeral spellings (C06).  Native meaning: a hand-written character scanner and
# the positional-value sum; written from the grammar
#     [sign] [prefix] ( D+ [ '.' D+ ] | '.' D+ ) [ marker [sign] d+ ]
# and deliberately independent of `re`, of int(), of float() and of fpy2.

_DIGITS10 = '0123456789'
_DIGITS16 = '0123456789abcdef'


def _scan_digits(s, i, alphabet):
    j = i
    while j < len(s) and s[j] in alphabet:
        j += 1
    return s[i:j], j


def _numeral_groups(s, prefix, alphabet, marker):
    """(matches, neg, I, F, eneg, E); surrounding whitespace is ignored, absent parts are ''"""
    bad = (False, False, '', '', False, '')
    s = s.strip()
    i = 0
    neg = False
    if i < len(s) and s[i] in '+-':
        neg = s[i] == '-'
        i += 1
    if s[i:i + len(prefix)] != prefix:
        return bad
    i += len(prefix)
    I, i = _scan_digits(s, i, alphabet)
    F = ''
    if i < len(s) and s[i] == '.':
        F, i = _scan_digits(s, i + 1, alphabet)
        if F == '':
            return bad
    elif I == '':
        return bad
    eneg, E = False, ''
    if i < len(s) and s[i] == marker:
        i += 1
        if i < len(s) and s[i] in '+-':
            eneg = s[i] == '-'
            i += 1
        E, i = _scan_digits(s, i, _DIGITS10)
        if E == '':
            return bad
    if i != len(s):
        return bad
    return (True, neg, I, F, eneg, E)


def dec_groups(s):
    return _numeral_groups(s, '', _DIGITS10, 'e')


def hex_groups(s):
    return _numeral_groups(s, '0x', _DIGITS16, 'p')


def dval(d, base):
    """positional value of a digit string: sum d_i * base^(n-1-i); 0 for ''"""
    alphabet = _DIGITS16 if base == 16 else _DIGITS10
    v = 0
    for ch in d:
        v = v * base + alphabet.index(ch)
    return v


def dlen(d):
    return len(d)


def frac_den(x):
    """denominator (lowest terms, positive) of an int or Fraction"""
    return x.denominator


def frac_num(x):
    return x.numerator


def cons_name(v):
    """class name of a node built by an external constructor (Python `ast` nodes)"""
    return type(v).__name__


def float_rounds_to(x, v):
    """the float v is the binary64 nearest to the rational x >= 0 (ties to even, overflow to inf): the value
    CPython gives a float literal denoting x.  int/int true division is correctly rounded in CPython."""
    x = Fraction(x)
    if x < 0 or not isinstance(v, float):
        return False
    try:
        f = x.numerator / x.denominator
    except OverflowError:
        f = float('inf')
    return f == v
_AMBIENT = []


def ambient():
    """innermost active `with` model object (model context managers push/pop themselves natively)"""
    return _AMBIENT[-1] if _AMBIENT else None


def callable_name(f):
    """dotted name of an external callable ('gmpy2.add'); 'module:function' for a plain python function"""
    mod = getattr(f, '__module__', None)
    nm = getattr(f, '__qualname__', getattr(f, '__name__', None))
    if nm is None or nm == '<lambda>':
        return None
    if type(f).__name__ == 'builtin_function_or_method':
        return f"{mod or 'gmpy2'}.{nm}"
    if type(f).__name__ == 'function':
        return f'{mod}:{nm}'
    return None


def apply_lemma(name, **kw):
    """lemma application: a proof step for the symbolic checker; natively a no-op"""
    return True


def obj_id(o):
    return id(o)


# ---------------------------------------------------------------------------
# derived sequences (C04; symbolic meaning in pyvc/derivedseq.py)

def same_elem(a, i, b, j):
    """a[i] is b[j]: the two sequences share this element (both indices in range)"""
    return a[i] is b[j]


def same_elem_obj(a, b):
    """a is b, for objects that may have been taken out of sequences: two elements of one input sequence are the
    same object iff their indices are equal (the elements of an input sequence are pairwise distinct objects)"""
    return a is b


def elem_is(x, s, j):
    """x is s[j]"""
    return x is s[j]


# ---------------------------------------------------------------------------
# abstract lists (C14y, pyvc/abslist.py): lists whose elements the verified function never inspects
def alist_len(L):
    return len(L)


def alist_all(fn, L):
    """every element e of the list L satisfies fn(e) (fn a named top-level spec function)"""
    return all(bool(fn(e)) for e in L)


def alist_parts_is(L, n):
    """symbolic: L is the concatenation of exactly n opaque pieces (results of modular calls), i.e. no piece was
    dropped or duplicated; native: the pieces of a real list are not observable (True)"""
    return True


def alist_same(a, b):
    """symbolic: the same concatenation of the same opaque pieces; native: equal lists"""
    return list(a) == list(b)
