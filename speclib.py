"""
speclib: the vocabulary of contract and spec files.

This module is the *native* (CPython) meaning of the vocabulary; the symbolic
interpreter (pyvc.intrinsics `s_*`) gives the same names their SMT meaning.
Contract/spec files are plain Python: under /venv/bin/python they run against
the real fpy2 objects (replay, runtime contract checking); under pyvc their AST
is executed symbolically.
"""
from fractions import Fraction


class Contract:
    """Base of a function contract (see DESIGN.md §2.3)."""


class Lemma:
    """Base of a lemma: pre => post over spec functions, no target code."""


_INVARIANTS = {}


def invariant(qualname):
    def deco(fn):
        _INVARIANTS[qualname] = fn
        return fn
    return deco


def pow2(k):
    if k < 0:
        raise ValueError('pow2 of a negative exponent')
    return 1 << k


def bl(c):
    if c < 0:
        raise ValueError('bl of a negative integer')
    return c.bit_length()


def ipow(b, e):
    return b ** e


def implies(a, b):
    return (not a) or bool(b)


def iff(a, b):
    return bool(a) == bool(b)


def xor(a, b):
    return bool(a) != bool(b)


def ite(c, a, b):
    return a if c else b


def forall_range(lo, hi, fn):
    return all(fn(i) for i in range(lo, hi))


def cls_name(v):
    return type(v).__name__


def same_obj(a, b):
    return a is b


def fdiv(a, b):
    return a // b


def fmod(a, b):
    return a % b


def to_real(a):
    return Fraction(a)


def rdiv(a, b):
    return Fraction(a) / Fraction(b)


def abstract(name, native_fn, *args):
    """
    abstract predicate `name` over scalars and (abstract) objects: natively `native_fn(*args)`
    decides it on the real objects; symbolically it is an uninterpreted Bool function of the
    arguments (objects contribute their identity), so a contract that mentions it holds for
    every interpretation, i.e. for every concrete context family.
    """
    return bool(native_fn(*args))


def abstract_int(name, native_fn, *args):
    """as `abstract`, but an int-valued function"""
    return int(native_fn(*args))


# ---------------------------------------------------------------------------
# FPy dialect (C20): native meaning on real fpy2 objects; pyvc/fpydialect.py gives the symbolic one

def fpy_val(x):
    """exact real value of an FPy result (Float -> Fraction); tuples elementwise; booleans unchanged"""
    if isinstance(x, tuple):
        return tuple(fpy_val(v) for v in x)
    if isinstance(x, bool):
        return x
    if hasattr(x, 'as_rational'):
        return x.as_rational()
    return Fraction(x)


def fpy_rnd(ctx, v):
    """rnd(ctx, v): the exact real v rounded once under ctx (finite results only)"""
    r = ctx.round(Fraction(v))
    if r.is_nar():
        raise ValueError('fpy_rnd: non-finite rounded result')
    return r.as_rational()


def fpy_finite(ctx, v):
    """is rnd(ctx, v) finite?  (symbolically: values are finite reals, so True)"""
    try:
        return not ctx.round(Fraction(v)).is_nar()
    except (ValueError, OverflowError):
        return False


def fpy_rne(v, digits):
    """v rounded to nearest-even at `digits` significant binary digits, unbounded exponent"""
    import fpy2 as fp
    return fp.MPFloatContext(int(digits), fp.RM.RNE).round(Fraction(v)).as_rational()


def fpy_operand(m, e):
    return Fraction(m) * Fraction(2) ** e


def fpy_pow2(n):
    return Fraction(2) ** int(Fraction(n))


def fpy_is_int(v):
    return Fraction(v).denominator == 1


GHOST = {}


def ghost(name, *args):
    """native meaning of a ghost function: supplied by the replay harness"""
    return GHOST[name](*args)
